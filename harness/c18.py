"""C18 — derived-variable conversions round-trip.
Tie: translator (Gen/GenUtils.v regenerated from ibicus/utils/_utils.py each run);
correspondence K11: every regenerated definition evaluated by vm_compute against the
Python function it came from; search: the round-trip laws evaluated on the implementation."""
import numpy as np
from fractions import Fraction
from . import common as C

GEN_FILES = ["GenUtils"]
TRUSTED = ["C18: NumPy elementwise broadcasting of equal-shape arrays (arrays are modelled as flat lists, lifted by map3)"]

def _utils():
    import ibicus.utils._utils as u
    return u

FUNCS3 = ["get_tasskew", "get_tasmin", "get_tasmax"]
FUNCS2 = ["get_tasrange", "get_prsnratio", "get_pr", "get_prsn", "_get_tasmax_from_tasmin_and_range"]
PAIR3 = ["get_tasmin_tasmax", "get_tasrange_tasskew"]

def gen_triple(r, kind):
    d = lambda lo, hi: C.dyadic(r, lo, hi, 64)
    if kind == "tas":
        tmin = d(200, 320); rng = d(0, 40) + Fraction(1, 64); tmax = tmin + rng
        tas = tmin + rng * Fraction(r.randint(0, 64), 64)
        return tas, tmin, tmax
    if kind == "rs":
        return d(200, 320), d(0, 40) + Fraction(1, 64), Fraction(r.randint(0, 64), 64)
    if kind == "any":
        a, b, c = d(-50, 50), d(-50, 50), d(-50, 50)
        if b == c: c += 1
        return a, b, c
    raise ValueError(kind)

def nz(x):
    return x if x != 0 else Fraction(1, 64)

def correspondence(res, tier, seed):
    u = _utils()
    r = C.rng_for(seed, "c18-corr")
    n = 150 if tier == "quick" else 1500
    cc = C.CoqCases("c18", ["NP", "QL", "GenUtils", "CorrBase"])
    meta = []
    for i in range(n):
        kind = ["tas", "rs", "any"][i % 3]
        a, b, c = gen_triple(r, kind)
        fa, fb, fc = float(a), float(b), float(c)
        for fn in FUNCS3:
            if fn == "get_tasskew" and b == c:
                continue
            obs = getattr(u, fn)(np.float64(fa), np.float64(fb), np.float64(fc))
            cc.add("close (%s %s %s %s) %s %s" % (fn, C.q(a), C.q(b), C.q(c), C.q(obs), C.q(C.tol_for(obs))))
            meta.append((fn, (a, b, c), float(obs)))
            res.case((fn, kind), sample=dict(func=fn, args=[str(a), str(b), str(c)], impl=float(obs)) if i < 2 else None)
        for fn in FUNCS2:
            y = b if fn not in ("get_prsnratio", "get_pr") else nz(b)
            x = a
            if fn == "get_prsnratio":
                x, y = nz(a), b       # (pr, prsn): divides by pr
            args = (x, y)
            obs = getattr(u, fn)(np.float64(float(args[0])), np.float64(float(args[1])))
            cc.add("close (%s %s %s) %s %s" % (fn, C.q(args[0]), C.q(args[1]), C.q(obs), C.q(C.tol_for(obs))))
            meta.append((fn, args, float(obs)))
            res.case((fn, kind))
        for fn in PAIR3:
            if fn == "get_tasrange_tasskew" and b == c:
                continue
            o1, o2 = getattr(u, fn)(np.float64(fa), np.float64(fb), np.float64(fc))
            cc.add("(let p := %s %s %s %s in close (fst p) %s %s && close (snd p) %s %s)" % (
                fn, C.q(a), C.q(b), C.q(c), C.q(o1), C.q(C.tol_for(o1)), C.q(o2), C.q(C.tol_for(o2))))
            meta.append((fn, (a, b, c), (float(o1), float(o2))))
            res.case((fn, kind))
        t = Fraction(r.randint(1, 1000), 10 ** r.randint(3, 12))
        v = Fraction(r.randint(-10, 1034), 1024)
        obs = u.threshold_cdf_vals(np.array([float(v)]), float(t))[0]
        cc.add("close (threshold_cdf_vals %s %s) %s %s" % (C.q(v), C.q(t), C.q(obs), C.q(Fraction(1, 10 ** 12))))
        meta.append(("threshold_cdf_vals", (v, t), float(obs)))
        res.case(("threshold_cdf_vals", v <= t, v >= 1 - t))
    fails, errors = cc.run()
    res.components["K11 GenUtils vs utils/_utils.py"] = dict(cases=len(cc.cases), disagreements=len(fails), errors=len(errors))
    for e in errors:
        res.broke("correspondence-error", "K11", e)
    for i in fails[:5]:
        fn, args, obs = meta[i]
        res.broke("correspondence", "K11 %s" % fn, dict(func=fn, args=[str(x) for x in args], impl=obs))
    res.rule = ("inputs: dyadic rationals (k/64) in physically shaped triples (tasmin<tasmax, tas between; range/skew; arbitrary), "
                "arrays of shapes (), (n,), (a,b,c); a case is distinct/non-trivial per (function, generator kind) or per (law, shape)")

def arrays(r, shape):
    n = int(np.prod(shape)) if shape else 1
    lo, hi = r.choice([(200, 320), (-60, 45), (-40, -1)])        # Kelvin, Celsius (both signs), Celsius below freezing
    tmin = np.array([float(C.dyadic(r, lo, hi, 64)) for _ in range(n)]).reshape(shape)
    rng = np.array([float(C.dyadic(r, 0, 40, 64) + Fraction(1, 64)) for _ in range(n)]).reshape(shape)
    sk = np.array([r.randint(0, 64) / 64 for _ in range(n)]).reshape(shape)
    return tmin, rng, sk

def laws(u, tas, tmin, tmax):
    """returns list of (law name, max abs error, scale)"""
    out = []
    rng, sk = u.get_tasrange_tasskew(tas, tmin, tmax)
    mn, mx = u.get_tasmin_tasmax(tas, rng, sk)
    out.append(("roundtrip_tasmin_pair", np.max(np.abs(mn - tmin))))
    out.append(("roundtrip_tasmax_pair", np.max(np.abs(mx - tmax))))
    out.append(("roundtrip_tasmin_single", np.max(np.abs(u.get_tasmin(tas, rng, sk) - tmin))))
    out.append(("roundtrip_tasmax_single", np.max(np.abs(u.get_tasmax(tas, rng, sk) - tmax))))
    out.append(("pair_single_range", np.max(np.abs(u.get_tasrange(tmin, tmax) - rng))))
    out.append(("pair_single_skew", np.max(np.abs(u.get_tasskew(tas, tmin, tmax) - sk))))
    out.append(("order_min", float(np.max(np.maximum(mn - tas, 0)))))
    out.append(("order_max", float(np.max(np.maximum(tas - mx, 0)))))
    out.append(("skew_unit", float(np.max(np.maximum(np.maximum(-sk, sk - 1), 0)))))
    return out

def pr_laws(u, pr, prsn):
    out = []
    ratio = u.get_prsnratio(pr, prsn)
    out.append(("pr_prsn_roundtrip", np.max(np.abs(u.get_prsn(pr, ratio) - prsn) / np.max(pr))))
    nzm = prsn != 0
    if np.any(nzm):
        out.append(("pr_pr_roundtrip", np.max(np.abs((u.get_pr(prsn[nzm], ratio[nzm]) - pr[nzm]) / pr[nzm]))))
    out.append(("pr_ratio_roundtrip", np.max(np.abs(u.get_prsnratio(pr, u.get_prsn(pr, ratio)) - ratio))))
    out.append(("ratio_unit", float(np.max(np.maximum(np.maximum(-ratio, ratio - 1), 0)))))
    return out

def one_search_case(u, r, shape):
    tmin, rng, sk = arrays(r, shape)
    tmax = tmin + rng
    tas = tmin + sk * rng
    bad = []
    for name, err in laws(u, tas, tmin, tmax):
        if not (err <= 1e-9 * 400):
            bad.append((name, float(err)))
    n = int(np.prod(shape)) if shape else 1
    unit = r.choice([1.0, 1.0, 2.0 ** -16, 2.0 ** -26])              # mm/day, or a flux in kg m-2 s-1 down to trace amounts (exact scalings)
    pr = np.array([r.randint(1, 4096) / 4096 for _ in range(n)]).reshape(shape) * unit
    prsn = pr * np.array([r.randint(0, 64) / 64 for _ in range(n)]).reshape(shape)
    pr1, prsn1 = np.atleast_1d(pr), np.atleast_1d(prsn)
    for name, err in pr_laws(u, pr1, prsn1):
        if not (err <= 1e-9):
            bad.append((name, float(err)))
    return bad, dict(tas=np.atleast_1d(tas).ravel().tolist(), tasmin=np.atleast_1d(tmin).ravel().tolist(),
                     tasmax=np.atleast_1d(tmax).ravel().tolist(), pr=pr1.ravel().tolist(), prsn=prsn1.ravel().tolist(),
                     shape=list(shape))

def dtype_case(u, r, shape, dtype):
    """records stored as integers (whole degrees, tenths of a degree) or in single precision: the conversions are
    floating-point formulas whatever the storage type"""
    n = int(np.prod(shape)) if shape else 1
    lo, hi = r.choice([(2000, 3200), (-600, 450), (200, 320)])
    tmin = np.array([r.randint(lo, hi) for _ in range(n)]).reshape(shape)
    rng = np.array([r.randint(1, 40) for _ in range(n)]).reshape(shape)
    tas = tmin + np.array([r.randint(0, int(k)) for k in rng.reshape(-1)]).reshape(shape)
    tmax = tmin + rng
    a, b, c = (x.astype(dtype) for x in (tas, tmin, tmax))
    want_sk = (tas - tmin) / rng
    tol = 1e-9 if np.dtype(dtype).kind == "i" else 2e-4
    bad = []
    g_rng, g_sk = u.get_tasrange_tasskew(a, b, c)
    if np.max(np.abs(np.asarray(g_sk, dtype=float) - want_sk)) > tol: bad.append(("pair_skew:" + np.dtype(dtype).name, float(np.max(np.abs(np.asarray(g_sk, dtype=float) - want_sk)))))
    if np.max(np.abs(np.asarray(u.get_tasskew(a, b, c), dtype=float) - want_sk)) > tol: bad.append(("single_skew:" + np.dtype(dtype).name, None))
    if np.max(np.abs(np.asarray(g_rng, dtype=float) - rng)) > tol * 40: bad.append(("pair_range:" + np.dtype(dtype).name, None))
    mn, mx = u.get_tasmin_tasmax(a, g_rng, g_sk)
    sc = max(1.0, float(np.max(np.abs(tmax))))
    if np.max(np.abs(np.asarray(mn, dtype=float) - tmin)) > tol * sc * 40 or np.max(np.abs(np.asarray(mx, dtype=float) - tmax)) > tol * sc * 40:
        bad.append(("roundtrip:" + np.dtype(dtype).name, [float(np.max(np.abs(np.asarray(mn, dtype=float) - tmin))), float(np.max(np.abs(np.asarray(mx, dtype=float) - tmax)))]))
    return bad, dict(shape=list(shape), dtype=np.dtype(dtype).name, tas=tas.reshape(-1).tolist(), tasmin=tmin.reshape(-1).tolist(), tasmax=tmax.reshape(-1).tolist())

def search(res, tier, seed, deep=False):
    u = _utils()
    r = C.rng_for(seed, "c18-search")
    for i in range(12 if tier == "quick" else 120):
        shape = [(), (6,), (3, 4), (2, 3, 2)][i % 4]; dtype = [np.int64, np.int32, np.float32][i % 3]
        try:
            bad, inp = dtype_case(u, r, shape, dtype)
        except Exception as e:
            bad, inp = [("exception:" + np.dtype(dtype).name, repr(e)[:200])], dict(shape=list(shape), dtype=np.dtype(dtype).name)
        res.case(("dtype", np.dtype(dtype).name, shape))
        if bad:
            res.witness(dict(component="utils._utils conversions", statement="conversion law %s violated for records stored as %s" % (bad[0][0], np.dtype(dtype).name),
                             input=inp, observed=bad, expected="the documented floating-point formulas whatever the storage type", **{"class": bad[0][0]}))
            break
    n = 60 if tier == "quick" else 600
    if deep:
        n *= 5
    shapes = [(), (1,), (7,), (3, 4), (2, 3, 4), (5, 1, 2)]
    for i in range(n):
        shape = shapes[i % len(shapes)]
        try:
            bad, inp = one_search_case(u, r, shape)
        except Exception as e:
            bad, inp = [("exception", repr(e))], dict(shape=list(shape))
        res.case(("law", shape), sample=dict(shape=list(shape), tasmin=inp.get("tasmin", [])[:3]) if i < 2 else None)
        if bad:
            res.witness(dict(component="utils._utils conversions", statement="conversion round-trip law %s violated on the implementation" % bad[0][0],
                             input=inp, observed=bad, expected="all errors <= 1e-9 (relative)", **{"class": bad[0][0]}))
            break

def replay(w):
    u = _utils()
    inp = w["input"]
    if "dtype" in inp:
        return True, "re-run ./check C18 (dtype cases are regenerated from the seed)"
    shape = tuple(inp["shape"])
    f = lambda k: np.array(inp[k]).reshape(shape if k not in ("pr", "prsn") else (-1,))
    bad = []
    for name, err in laws(u, f("tas"), f("tasmin"), f("tasmax")):
        if not (err <= 1e-9 * 400):
            bad.append((name, float(err)))
    for name, err in pr_laws(u, f("pr"), f("prsn")):
        if not (err <= 1e-9):
            bad.append((name, float(err)))
    return bool(bad), bad
