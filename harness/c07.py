"""C07 — running windows adjust every time step exactly once, from a window containing it.
Tie: translator (Gen/GenWindows.v regenerated from ibicus/utils/_running_window_mode.py);
hand model of the scatter loop (Model/Driver.v) tied by correspondence K3.
Correspondence K1/K2: regenerated window functions vs the Python methods (exact, integer lists).
Search: exactly-once / containment evaluated on the implementation's window classes, on a
NaN-poisoned probe debiaser and on the real debiasers."""
import datetime, warnings
import numpy as np
from . import common as C
from . import drivers

GEN_FILES = ["GenWindows"]
TRUSTED = ["C07: datetime -> (day of year, year) extraction is ibicus' own day_of_year/year (model starts from the integer arrays)",
           "C07: hand model Model/Driver.v of the scatter loop in RunningWindowDebiaser.apply_location / CDFt / QDM year loop, tied by correspondence K3"]

def W():
    import ibicus.utils._running_window_mode as m
    return m

def odd_up(v):
    return v + 1 if v % 2 == 0 else v

# ------------------------------------------------------------------ generators
def gen_days(r, kind):
    """returns a day-of-year array"""
    if kind == "span":       # one (partial) year, consecutive days
        mn = r.randint(1, 366); mx = r.randint(mn, 366)
        return np.arange(mn, mx + 1)
    if kind == "calendar":   # real calendar, several years, any start date
        from ibicus.utils import create_array_of_consecutive_dates, day_of_year
        start = datetime.date(r.randint(1950, 2030), r.randint(1, 12), r.randint(1, 28))
        n = r.choice([r.randint(1, 60), r.randint(300, 800), r.randint(800, 1600)])
        return day_of_year(create_array_of_consecutive_dates(n, np.datetime64(start)))
    if kind == "shuffled":
        d = gen_days(r, "calendar")
        p = list(range(len(d))); r.shuffle(p)
        return d[p]
    if kind == "sparse":     # gaps inside the span
        mn = r.randint(1, 360); mx = r.randint(mn, 366)
        d = [x for x in range(mn, mx + 1) if r.random() < 0.6 or x in (mn, mx)]
        return np.array(d)
    raise ValueError(kind)

def gen_LS(r, maxv=61):
    S = r.randint(1, maxv); L = r.randint(S, max(S, maxv))
    if r.random() < 0.3: L = S
    return L, S

# ------------------------------------------------------------------ implementation observables
def impl_days_check(days, L, S):
    """exactly-once / containment / mask alignment on the implementation.  Returns (bad: str|None, detail)"""
    m = W()
    with warnings.catch_warnings():
        warnings.simplefilter("ignore")
        rw = m.RunningWindowOverDaysOfYear(window_length_in_days=L, window_step_length_in_days=S)
    n = len(days)
    counts = np.zeros(n, dtype=int)
    for c, idx in rw.use(days):
        iw = rw.get_indices_vals_in_window(days, c)
        counts[idx] += 1
        if not np.all(np.isin(idx, iw)):
            return "adjusted-not-in-window", dict(center=int(c))
        mask = m.RunningWindowOverDaysOfYear.get_mask_vals_to_adjust_in_window(iw, idx)
        if len(mask) != len(iw) or int(mask.sum()) != len(idx) or not np.array_equal(iw[mask], idx):
            return "mask-misaligned", dict(center=int(c))
    if np.any(counts != 1):
        i = int(np.where(counts != 1)[0][0])
        return ("never-adjusted" if counts[i] == 0 else "adjusted-twice"), dict(index=i, day=int(days[i]), count=int(counts[i]))
    return None, None

def impl_years_check(years, L, S):
    m = W()
    with warnings.catch_warnings():
        warnings.simplefilter("ignore")
        rw = m.RunningWindowOverYears(window_length_in_years=L, window_step_length_in_years=S)
    years = np.asarray(years)
    counts = np.zeros(len(years), dtype=int)
    for ya, yw in rw.use(years):
        ma = m.RunningWindowOverYears.get_if_in_chosen_years(years, ya)
        mw = m.RunningWindowOverYears.get_if_in_chosen_years(years, yw)
        counts[ma] += 1
        if np.any(ma & ~mw):
            return "adjusted-not-in-window", dict(years_to_adjust=[int(v) for v in ya][:5])
    if np.any(counts != 1):
        i = int(np.where(counts != 1)[0][0])
        return ("never-adjusted" if counts[i] == 0 else "adjusted-twice"), dict(index=i, year=int(years[i]), count=int(counts[i]))
    return None, None

def gen_years(r, kind):
    if kind == "consecutive":
        y0 = r.randint(1850, 2080); n = r.randint(1, 120)
        ys = list(range(y0, y0 + n))
    elif kind == "leap":      # the years a one-day window on day 366 selects
        y0 = r.randint(1850, 2180); n = r.randint(1, 200)
        ys = [y for y in range(y0, y0 + n) if (y % 4 == 0 and y % 100 != 0) or y % 400 == 0]
        if not ys: ys = [2000]
    else:
        raise ValueError(kind)
    reps = r.choice([1, 1, 3])
    out = [y for y in ys for _ in range(reps)]
    return np.array(out)

def probe_debiaser(L, S):
    from ibicus.debias._running_window_debiaser import RunningWindowDebiaser
    import attrs
    @attrs.define(slots=False)
    class Probe(RunningWindowDebiaser):
        @classmethod
        def from_variable(cls, variable, **kw):
            return cls(**kw)
        def apply_on_window(self, obs, cm_hist, cm_future, **kw):
            return cm_future + 1.0
    with warnings.catch_warnings():
        warnings.simplefilter("ignore")
        return Probe(running_window_mode=True, running_window_length=L, running_window_step_length=S)

TIME_REPS = ["object", "datetime64[D]", "datetime64[s]", "datetime64[ns]"]
def dates(start, n, rep="object"):
    """time axis as an object array of datetime.date (what create_array_of_consecutive_dates gives) or as numpy datetime64
    of some unit (what an xarray / netCDF time coordinate gives)"""
    from ibicus.utils import create_array_of_consecutive_dates
    if rep == "object":
        return create_array_of_consecutive_dates(n, np.datetime64(start))
    return np.arange(np.datetime64(start, "D"), np.datetime64(start, "D") + np.timedelta64(n, "D")).astype(rep)

def impl_probe_check(start_f, n_f, start_o, n_o, start_h, n_h, L, S, d=None, rep="object"):
    d = d if d is not None else probe_debiaser(L, S)
    f = np.arange(n_f, dtype=float)
    with warnings.catch_warnings():
        warnings.simplefilter("ignore")
        out = d.apply_location(np.zeros(n_o), np.zeros(n_h), f, time_obs=dates(start_o, n_o, rep),
                               time_cm_hist=dates(start_h, n_h, rep), time_cm_future=dates(start_f, n_f, rep))
    if out.shape != f.shape:
        return "shape", dict(shape=list(out.shape))
    if not np.all(np.isfinite(out)):
        i = int(np.where(~np.isfinite(out))[0][0])
        return "never-adjusted", dict(index=i)
    if not np.array_equal(out, f + 1):
        i = int(np.where(out != f + 1)[0][0])
        return "wrong-value", dict(index=i, got=float(out[i]), want=float(f[i] + 1))
    return None, None

def impl_real_gap_check(inp):
    """real debiaser; corrected series sub-annual (gap in its days of the year), calibration series whole years"""
    from . import realruns as R
    rs = np.random.RandomState(inp["data_seed"])
    name = inp["debiaser"]; n_c, n_s = inp["n_calibration"], inp["n_corrected"]
    d = R.build(name, "tas", "years" if inp.get("years_windows") else "days", running_window_length=inp["L"], running_window_step_length=inp["S"])
    a, b = R.series(rs, n_c), R.series(rs, n_c, "tas", 1.5)
    c = R.series(rs, n_s, "tas", 3.0, 1.0, start=100)
    tC, tS = R.times(n_c, inp["start_calibration"]), R.times(n_s, inp["start_corrected"])
    try:
        if name == "DeltaChange":   # corrects obs
            out = R.run(d, c, a, b, tS, tC, tC)
        else:
            out = R.run(d, a, b, c, tC, tC, tS)
    except Exception as e:
        return "exception:" + type(e).__name__, dict(error=repr(e)[:300])
    out = np.asarray(out, dtype=float)
    if out.shape != c.shape:
        return "shape", dict(shape=list(out.shape))
    if not np.isfinite(out).all():
        idx = np.where(~np.isfinite(out))[0]
        # a window at the edge of a sub-annual series may hold only one or two values of the corrected series: a
        # distribution-fitting method has nothing to fit there (zero spread) — that is the method's domain, not the window
        # bookkeeping C07 is about.  Time steps adjusted from such a window are excused (and counted); any other
        # undefined value is reported.
        from ibicus.utils import day_of_year
        rw = d.running_window; days = day_of_year(tS)
        thin = set()
        for centre, adj in rw.use(days):
            if len(rw.get_indices_vals_in_window(days, centre)) < 3:
                thin.update(int(k) for k in adj)
        rest = [int(k) for k in idx if int(k) not in thin]
        if not rest:
            return None, dict(excused_thin_window=int(idx.size))
        return "undefined-value", dict(count=len(rest), first_indices=rest[:10])
    return None, None

def k19(res, tier, seed, tag="k19"):
    """K19: hand model Model/Calendar.v vs the time helpers of ibicus/utils/_utils.py: year, day_of_year, month on
    create_array_of_consecutive_dates(n, start) for random start dates (leap years, century years 1900/2000/2100, year
    turns), as object dates and as numpy datetime64 of several units; and the dates inferred when no time array is given."""
    import datetime
    from ibicus.utils import _utils as U
    r = C.rng_for(seed, tag)
    n_cases = 16 if tier == "quick" else 160
    cc = C.CoqCases(tag, ["Calendar", "CorrBase", "CalendarCorr"], per_file=8)
    meta = []
    for i in range(n_cases):
        if i % 8 == 7:
            n = r.randint(1, 900)
            t = U.infer_and_create_time_arrays_if_not_given(np.zeros(n), np.zeros(1), np.zeros(1))[0]
            cc.add("k19_inferred %d%%nat %s %s" % (n, C.zl(U.year(t)), C.zl(U.day_of_year(t))))
            m_ = dict(func="infer_and_create_time_arrays_if_not_given", n=n)
        else:
            y = r.choice([1899, 1900, 1904, 1999, 2000, 2001, 2096, 2100, r.randint(1850, 2200), r.randint(1850, 2200)])
            mth = r.choice([1, 2, 2, 3, 12, r.randint(1, 12)])
            import calendar
            d = r.choice([1, calendar.monthrange(y, mth)[1], r.randint(1, calendar.monthrange(y, mth)[1])])
            n = r.choice([1, 2, r.randint(3, 400), r.randint(300, 800)])
            rep = TIME_REPS[i % 4]
            t = dates(datetime.date(y, mth, d), n, rep)
            cc.add("k19 %d%%nat %s %s %s %s %s %s" % (n, C.z(y), C.z(mth), C.z(d), C.zl(U.year(t)), C.zl(U.day_of_year(t)), C.zl(U.month(t))))
            m_ = dict(func="year/day_of_year/month(create_array_of_consecutive_dates)", start="%04d-%02d-%02d" % (y, mth, d), n=n, time_dtype=rep)
        meta.append(m_); res.case(("k19", m_.get("time_dtype"), n > 366), sample=m_ if len(res.samples) < 3 else None)
    fails, errors = cc.run()
    res.components["K19 Model/Calendar.v (hand model) vs utils year / day_of_year / month / consecutive dates"] = dict(cases=len(cc.cases), disagreements=len(fails), errors=len(errors))
    for e in errors[:3]:
        res.broke("correspondence-error", "K19", e)
    for i in fails[:5]:
        res.broke("correspondence", "K19 " + meta[i]["func"], meta[i])

# ------------------------------------------------------------------ correspondence
def correspondence(res, tier, seed):
    k19(res, tier, seed, tag="k19c07")
    from . import drivers
    drivers.k20(res, tier, seed, tag="k20c07")      # ISIMIP's month mode: every time step once, from its month's sample
    m = W()
    r = C.rng_for(seed, "c07-corr")
    n = 120 if tier == "quick" else 1200
    cc = C.CoqCases("c07", ["NP", "GenWindows", "CorrBase"], per_file=60)
    meta = []
    for i in range(n):
        kind = ["span", "calendar", "sparse", "shuffled"][i % 4]
        days = gen_days(r, kind)
        if kind in ("calendar", "shuffled") and len(days) > 500:
            days = days[:500]
        L0, S0 = gen_LS(r)
        # post-init
        try:
            with warnings.catch_warnings():
                warnings.simplefilter("ignore")
                rw = m.RunningWindowOverDaysOfYear(window_length_in_days=L0, window_step_length_in_days=S0)
            pi = "Some (%s, %s)" % (C.z(rw.window_length_in_days), C.z(rw.window_step_length_in_days))
        except ValueError:
            rw, pi = None, "None"
        cc.add("opt_eqb (fun a b => Z.eqb (fst a) (fst b) && Z.eqb (snd a) (snd b)) (days_post_init %s %s) (%s)" % (C.z(L0), C.z(S0), pi))
        meta.append(("days_post_init", dict(L=L0, S=S0)))
        res.case(("post_init", L0 % 2, S0 % 2, rw is None))
        if rw is None:
            continue
        L, S = rw.window_length_in_days, rw.window_step_length_in_days
        try:
            centers = [int(c) for c in rw._get_window_centers(days)]
            per = []
            for c in centers[:: max(1, len(centers) // 6)]:
                ia = rw.get_indices_vals_to_adjust(days, c)
                iw = rw.get_indices_vals_in_window(days, c)
                mk = m.RunningWindowOverDaysOfYear.get_mask_vals_to_adjust_in_window(iw, ia)
                per.append((c, [int(v) for v in ia], [int(v) for v in iw], [bool(v) for v in mk]))
        except Exception as e:
            res.broke("correspondence-error", "K1 implementation raised", dict(days=[int(d) for d in days[:50]], L=L, S=S, error=repr(e)))
            return
        D = C.zl(days)
        parts = ["zlist_eqb (days_window_centers %s %s) %s" % (C.z(S), D, C.zl(centers))]
        for c, ia, iw, mk in per:
            parts.append("zlist_eqb (days_indices_to_adjust %s %s %s) %s" % (C.z(S), D, C.z(c), C.zl(ia)))
            parts.append("zlist_eqb (days_indices_in_window %s %s %s) %s" % (C.z(L), D, C.z(c), C.zl(iw)))
            parts.append("blist_eqb (days_mask_adjust_in_window %s %s) %s" % (C.zl(iw), C.zl(ia), C.bl(mk)))
        cc.add("(" + " && ".join(parts) + ")")
        meta.append(("days windows", dict(days=[int(d) for d in days[:40]], n=len(days), L=L, S=S)))
        span = int(days.max() - days.min() + 1)
        res.case(("days", kind, span % S == 0, int(days.min()) == 1, L == S),
                 sample=dict(kind=kind, n=len(days), min=int(days.min()), max=int(days.max()), L=L, S=S, centers=centers[:5]) if i < 3 else None)
        res.count("days/" + kind)
    for i in range(n):
        kind = ["consecutive", "leap"][i % 2]
        years = gen_years(r, kind)
        L0, S0 = gen_LS(r, 41)
        try:
            with warnings.catch_warnings():
                warnings.simplefilter("ignore")
                rw = m.RunningWindowOverYears(window_length_in_years=L0, window_step_length_in_years=S0)
        except ValueError:
            cc.add("opt_eqb (fun a b => true) (years_post_init %s %s) None" % (C.z(L0), C.z(S0)))
            meta.append(("years_post_init", dict(L=L0, S=S0)))
            continue
        L, S = rw.window_length_in_years, rw.window_step_length_in_years
        try:
            uy = np.unique(years)
            centers = [int(c) for c in rw._get_years_forming_window_centers(uy)]
            c0 = centers[0]
            ya = [int(v) for v in rw._get_years_in_window_that_are_adjusted(c0)]
            yw = [int(v) for v in rw._get_years_in_window(c0)]
            msk = [bool(b) for b in m.RunningWindowOverYears.get_if_in_chosen_years(years, np.array(ya))]
        except Exception as e:
            res.broke("correspondence-error", "K2 implementation raised", dict(years=[int(y) for y in years[:50]], L=L, S=S, error=repr(e)))
            return
        Y = C.zl(uy)
        cc.add("(zlist_eqb (years_window_centers %s %s) %s && zlist_eqb (years_to_adjust %s %s) %s && zlist_eqb (years_in_window %s %s) %s && blist_eqb (years_if_in_chosen %s %s) %s && zlist_eqb (NP.unique %s) %s)" % (
            C.z(S), Y, C.zl(centers), C.z(S), C.z(c0), C.zl(ya), C.z(L), C.z(c0), C.zl(yw), C.zl(years), C.zl(ya), C.bl(msk), C.zl(years), Y))
        meta.append(("years windows", dict(years=[int(y) for y in uy[:40]], L=L, S=S)))
        span = int(uy.max() - uy.min() + 1)
        res.case(("years", kind, span <= S, span % S == 0), sample=dict(kind=kind, years=[int(y) for y in uy[:6]], L=L, S=S, centers=centers[:5]) if i < 2 else None)
        res.count("years/" + kind)
    drivers.k3(res, tier, seed, tag="k3c07", n_quick=30, n_thorough=300)
    fails, errors = cc.run()
    res.components["K1/K2 GenWindows vs _running_window_mode.py"] = dict(cases=len(cc.cases), disagreements=len(fails), errors=len(errors))
    for e in errors[:3]:
        res.broke("correspondence-error", "K1/K2", e)
    for i in fails[:5]:
        res.broke("correspondence", "K1/K2 " + meta[i][0], meta[i][1])
    res.rule = ("day arrays: consecutive spans 1..366, real multi-year calendars with arbitrary start dates, sparse and shuffled day arrays; "
                "year arrays: consecutive ranges and leap-year-only sets; (L,S) random with step<=length, even values included (post-init rounding); "
                "distinct/non-trivial = distinct (generator kind, span mod step == 0, starts on day 1, L == S) classes")

# ------------------------------------------------------------------ search on the implementation
def search(res, tier, seed, deep=False):
    r = C.rng_for(seed, "c07-search")
    thorough = tier == "thorough"
    found = set()
    def report(component, cls, inp, detail, statement):
        key = (component, cls)
        if key in found:
            return
        found.add(key)
        res.witness(dict(component=component, statement=statement, input=inp, observed=dict(kind=cls, **(detail or {})),
                         expected="every time step adjusted exactly once from a window containing it", **{"class": cls}))
    # A. day windows: spans
    grid = []
    if thorough or deep:
        for mn in range(1, 367, 1 if thorough else 3):
            for mx in range(mn, 367, 7 if not thorough else 3):
                for S in (1, 3, 5, 7, 9, 15, 31, 61):
                    grid.append((mn, mx, S + 2 * r.randint(0, 3), S))
        res.exhaustive = False
    for _ in range(300 if not thorough else 3000):
        mn = r.randint(1, 366); mx = r.randint(mn, 366)
        L, S = gen_LS(r)
        grid.append((mn, mx, L, S))
    # structured corner: span a multiple of the step, not starting on day 1
    for _ in range(100):
        S = odd_up(r.randint(1, 31)); k = r.randint(1, 8); mn = r.randint(2, 100)
        if mn + k * S - 1 <= 366:
            grid.append((mn, mn + k * S - 1, S + 2 * r.randint(0, 5), S))
    for (mn, mx, L, S) in grid:
        if S > L: L = S
        days = np.arange(mn, mx + 1)
        try:
            bad, det = impl_days_check(days, L, S)
        except Exception as e:
            bad, det = "exception:" + type(e).__name__, dict(error=repr(e)[:300])
        span = mx - mn + 1
        Se = odd_up(S)
        res.case(("A", span % Se == 0, mn == 1, odd_up(L) == Se, span < Se))
        if bad:
            report("RunningWindowOverDaysOfYear", bad, dict(kind="span", min=mn, max=mx, L=L, S=S), det,
                   "day window: a time step is not adjusted exactly once from a window containing it")
    # calendars
    for i in range(40 if not thorough else 400):
        kind = ["calendar", "shuffled", "sparse"][i % 3]
        days = gen_days(r, kind)
        L, S = gen_LS(r)
        try:
            bad, det = impl_days_check(days, L, S)
        except Exception as e:
            bad, det = "exception:" + type(e).__name__, dict(error=repr(e)[:300])
        res.case(("A-cal", kind, len(days) > 366))
        if bad:
            report("RunningWindowOverDaysOfYear", bad, dict(kind=kind, days=[int(d) for d in days], L=L, S=S), det,
                   "day window: a time step is not adjusted exactly once from a window containing it")
    # B. year windows
    for i in range(300 if not thorough else 3000):
        kind = ["consecutive", "leap"][i % 2]
        years = gen_years(r, kind)
        L, S = gen_LS(r, 41)
        try:
            bad, det = impl_years_check(years, L, S)
        except Exception as e:
            bad, det = "exception:" + type(e).__name__, dict(error=repr(e)[:300])
        res.case(("B", kind, len(set(years.tolist())) <= odd_up(S)))
        if bad:
            report("RunningWindowOverYears", bad, dict(kind=kind, years=sorted(set(int(y) for y in years)), L=L, S=S), det,
                   "year window: a year present in the data is not adjusted exactly once from a window containing it")
    # C. probe debiaser through apply_location (NaN-poisoned buffer under the hook)
    for i in range(40 if not thorough else 300):
        start_f = datetime.date(r.randint(1990, 2060), r.randint(1, 12), r.randint(1, 28))
        n_f = r.choice([r.randint(1, 40), r.randint(200, 500), r.randint(500, 1200)])
        start_o = datetime.date(r.randint(1960, 1990), 1, 1); n_o = r.randint(366, 1100)
        start_h = datetime.date(r.randint(1960, 1990), r.randint(1, 12), 1); n_h = r.randint(366, 1100)
        L, S = gen_LS(r, 45)
        if i % 5 == 0:   # corner: span multiple of step, sub-annual, not starting 1 Jan
            S = odd_up(S); n_f = S * r.randint(1, 6); L = max(L, S)
            start_f = datetime.date(2001, r.randint(1, 6), r.randint(2, 28))
        rep = TIME_REPS[(i // 2) % 4] if i % 2 else "object"
        try:
            bad, det = impl_probe_check(start_f, n_f, start_o, n_o, start_h, n_h, L, S, rep=rep)
        except Exception as e:
            bad, det = "exception:" + type(e).__name__, dict(error=repr(e)[:300])
        res.case(("C", n_f > 366, i % 5 == 0, rep))
        if bad:
            report("RunningWindowDebiaser.apply_location", bad,
                   dict(kind="probe", start_future=str(start_f), n_future=n_f, start_obs=str(start_o), n_obs=n_o,
                        start_cm_hist=str(start_h), n_cm_hist=n_h, L=L, S=S, time_dtype=rep), det,
                   "probe debiaser (apply_on_window = cm_future+1) through apply_location: output is not cm_future+1 at every time step")
    # D. the same debiaser instance applied to a sequence of series of different lengths and start dates
    #    (a short trial period, then the full period, ...): every call on its own terms
    for i in range(6 if not thorough else 40):
        L, S = gen_LS(r, 45)
        d = probe_debiaser(L, S)
        seq = []
        for k in range(3):
            start_f = datetime.date(r.randint(1990, 2060), r.choice([1, 1, r.randint(1, 12)]), r.choice([1, r.randint(1, 28)]))
            n_f = [r.randint(200, 400), r.randint(700, 1500), r.randint(30, 700)][k]
            start_o = datetime.date(r.randint(1960, 1990), 1, 1); n_o = [r.randint(366, 500), r.randint(800, 1100), r.randint(366, 1100)][k]
            seq.append((start_f, n_f, start_o, n_o, start_o, n_o))
        for k, a in enumerate(seq):
            try:
                bad, det = impl_probe_check(*a, L, S, d=d)
            except Exception as e:
                bad, det = "exception:" + type(e).__name__, dict(error=repr(e)[:300])
            res.case(("D", k))
            if bad:
                report("RunningWindowDebiaser.apply_location", bad + ":reused-instance",
                       dict(kind="probe-sequence", call=k, sequence=[dict(start_future=str(x[0]), n_future=x[1], start_obs=str(x[2]), n_obs=x[3]) for x in seq], L=L, S=S), det,
                       "the same debiaser applied to several series in turn: a later call does not adjust every time step of its own series")
                break
    # E. the REAL debiasers on a sub-annual series with a gap in the days of the year it covers (the window
    #    centres still run over min..max day of year, so some windows have no time step to adjust and, for short
    #    windows, an empty slice of the corrected series): a defined finite value at every time step, no exception.
    #    The calibration series cover every day of the year (for DeltaChange the corrected series is obs).
    from . import realruns as R
    rs = np.random.RandomState(seed * 7 + 3)
    for i in range(1 if not thorough else 6):
        for name in R.ALL:
            L, S = r.choice([(15, 5), (31, 15), (31, 31), (61, 15)])
            if name == "ISIMIP": S = max(S, 15)
            n_c = r.choice([1096, 1461]); n_s = r.randint(160, 280)   # crosses the turn of the year: days min..max = 1..365/366 with a gap of >= 85 days
            start_s = "%d-%02d-%02d" % (r.randint(2030, 2060), r.randint(8, 12), r.randint(1, 28))
            start_c = "%d-01-01" % r.choice([1981, 1985])
            inp = dict(kind="real-gap", debiaser=name, L=L, S=S, n_calibration=n_c, n_corrected=n_s,
                       start_corrected=start_s, start_calibration=start_c, data_seed=int(rs.randint(1 << 30)),
                       years_windows=(name in ("CDFt", "QuantileDeltaMapping") and r.random() < 0.5))
            bad, det = impl_real_gap_check(inp)
            if det and det.get("excused_thin_window"): res.count("real-gap-thin-window-excused:" + name)
            res.case(("E", name))
            if bad:
                report(name + ".apply_location", bad, inp, det,
                       "real debiaser on a sub-annual corrected series whose days of the year have a gap: an exception or an undefined value")
    res.components["search"] = dict(day_span_configs=len(grid), note="exactly-once/containment/mask alignment on the implementation's window classes; probe debiaser on NaN-poisoned buffers")

def replay(w):
    inp = w["input"]
    comp = w["component"]
    try:
        if comp == "RunningWindowOverDaysOfYear":
            days = np.arange(inp["min"], inp["max"] + 1) if inp.get("kind") == "span" else np.array(inp["days"])
            bad, det = impl_days_check(days, inp["L"], inp["S"])
        elif comp == "RunningWindowOverYears":
            bad, det = impl_years_check(np.array(inp["years"]), inp["L"], inp["S"])
        elif inp.get("kind") == "real-gap":
            bad, det = impl_real_gap_check(inp)
        elif inp.get("kind") == "probe-sequence":
            p = lambda s: datetime.date.fromisoformat(s)
            d = probe_debiaser(inp["L"], inp["S"]); bad = det = None
            for x in inp["sequence"][: inp["call"] + 1]:
                bad, det = impl_probe_check(p(x["start_future"]), x["n_future"], p(x["start_obs"]), x["n_obs"], p(x["start_obs"]), x["n_obs"], inp["L"], inp["S"], d=d)
        else:
            p = lambda s: datetime.date.fromisoformat(s)
            bad, det = impl_probe_check(p(inp["start_future"]), inp["n_future"], p(inp["start_obs"]), inp["n_obs"],
                                        p(inp["start_cm_hist"]), inp["n_cm_hist"], inp["L"], inp["S"], rep=inp.get("time_dtype", "object"))
    except Exception as e:
        bad, det = "exception:" + type(e).__name__, dict(error=repr(e)[:300])
    return bool(bad), (bad, det)
