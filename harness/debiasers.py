"""The rational location-scale family as an ibicus StatisticalModel (passed as distribution= to the REAL
debiasers), data generators and correspondence batch K5: regenerated per-window methods
(Gen/GenScalars.v, translated from the source) vs the real apply_on_window / helper methods."""
import warnings, logging
import numpy as np
from fractions import Fraction
from . import common as C

def ratls_model():
    from ibicus.utils import StatisticalModel
    class RatLS(StatisticalModel):
        """F0(z) = 1/2 (1 + z/(1+|z|)); fit = (mean, mean absolute deviation)"""
        def fit(self, data, **kw):
            data = np.asarray(data, dtype=float)
            m = data.mean()
            return (m, np.abs(data - m).mean())
        def cdf(self, x, *fit, **kw):
            z = (np.asarray(x, dtype=float) - fit[0]) / fit[1]
            return 0.5 * (1 + z / (1 + np.abs(z)))
        def ppf(self, q, *fit, **kw):
            y = 2 * np.asarray(q, dtype=float) - 1
            z = np.where(y >= 0, y / (1 - y), y / (1 + y))
            return fit[0] + fit[1] * z
    return RatLS()

def dy(r, lo, hi, den=16):
    return Fraction(r.randint(lo * den, hi * den), den)

def sample(r, n, lo=-6, hi=6, den=16, distinct=False):
    if not distinct:
        return [dy(r, lo, hi, den) for _ in range(n)]
    s = set()
    while len(s) < n:
        s.add(dy(r, lo, hi, den))
    s = list(s); r.shuffle(s)
    return s

def fl(xs):
    return np.array([float(x) for x in xs])

def S(s):
    return '"%s"%%string' % s

def at_float_discontinuity(xs, ys, vals, inexact=False):
    """step ecdf of xs at vals, then IECDF of ys: (len(ys)-1) * (k/len(xs)) exactly an integer with a non-dyadic k/len(xs):
    float64 may land on either side of the floor (statsmodels builds the step values with np.linspace, so even dyadic k/n are inexact); such cases are skipped (counted)"""
    m, n = len(xs), len(ys)
    if inexact and set(vals) & set(xs):
        # the evaluation points come out of a floating-point computation (detrending by a difference / ratio of
        # means) and one of them equals a sample value in exact arithmetic: a jump of the step ecdf is hit exactly
        return True
    for v in vals:
        k = sum(1 for x in xs if x <= v)
        p = Fraction(k, m)
        if p not in (0, 1) and ((n - 1) * p).denominator == 1:     # statsmodels' ECDF values are linspace floats: even k/n = 1/2 is not exact
            return True
    return False

def opt_close(model_expr, obs, tol=None):
    """Coq Boolean: model_expr : option (list Q) is Some l with l close to obs"""
    tol = tol if tol is not None else C.tol_for(list(obs)) * 1000
    return "(match %s with Some l__ => close_list l__ %s %s | None => false end)" % (model_expr, C.ql(obs), C.q(tol))

def k5(res, tier, seed, tag="k5", n_quick=25, n_thorough=250):
    logging.getLogger("ibicus").setLevel(logging.CRITICAL)
    import ibicus.debias as D
    r = C.rng_for(seed, tag)
    n = n_quick if tier == "quick" else n_thorough
    cc = C.CoqCases(tag, ["QL", "Dist", "Ecdf", "RatLS", "GenUtils", "GenScalars", "CorrBase"], per_file=30)
    meta = []
    rat = ratls_model()
    def add(e, m, key):
        cc.add(e); meta.append(m); res.case(key, sample=m if len(res.samples) < 5 else None)
    with warnings.catch_warnings():
        warnings.simplefilter("ignore")
        for i in range(n):
            no, nh, nf = r.randint(3, 14), r.randint(3, 14), r.randint(2, 14)
            if i % 4 == 0: nh = no
            pos = i % 3 == 1      # positive data for multiplicative / relative variants
            lo, hi = (1, 9) if pos else (-6, 6)
            o, h, f = sample(r, no, lo, hi), sample(r, nh, lo, hi), sample(r, nf, lo, hi, distinct=(i % 2 == 0))
            if len(set(o)) < 2 or len(set(h)) < 2 or len(set(f)) < 2:
                continue
            O, H, F = C.ql(o), C.ql(h), C.ql(f)
            fo, fh, ff = fl(o), fl(h), fl(f)
            info = dict(obs=[str(x) for x in o], cm_hist=[str(x) for x in h], cm_future=[str(x) for x in f])
            # LinearScaling / DeltaChange
            for dt in ("additive", "multiplicative"):
                if dt == "multiplicative" and not pos: continue
                out = D.LinearScaling(delta_type=dt).apply_on_window(fo, fh, ff)
                add(opt_close("ls_apply_on_window %s %s %s %s" % (S(dt), O, H, F), out), dict(func="LinearScaling.apply_on_window", delta_type=dt, **info), ("ls", dt))
                out = D.DeltaChange(delta_type=dt)._apply_on_within_year_window(fo, fh, ff)
                add(opt_close("dc_apply_on_window %s %s %s %s" % (S(dt), O, H, F), out), dict(func="DeltaChange._apply_on_within_year_window", delta_type=dt, **info), ("dc", dt))
            # QuantileMapping
            for mt in ("parametric", "nonparametric"):
                for det in ("additive", "multiplicative", "no_detrending"):
                    if det == "multiplicative" and not pos: continue
                    if mt == "nonparametric" and (i + len(det)) % 2: continue
                    if mt == "nonparametric":
                        delta = {"additive": sum(f, Fraction(0)) / len(f) - sum(h, Fraction(0)) / len(h), "no_detrending": 0}.get(det)
                        vals = [x - delta for x in f] if delta is not None else [x / ((sum(f, Fraction(0)) / len(f)) / (sum(h, Fraction(0)) / len(h))) for x in f]
                        if at_float_discontinuity(h, o, vals, inexact=(det != "no_detrending")):
                            res.count("skipped-at-float-discontinuity"); continue
                    thr = Fraction(1, 10 ** r.choice([2, 3, 10]))
                    d = D.QuantileMapping(distribution=rat, mapping_type=mt, detrending=det, cdf_threshold=float(thr))
                    out = d.apply_on_window(fo, fh, ff)
                    add(opt_close("qm_apply_on_window %s %s ratls %s %s %s %s" % (S(det), S(mt), C.q(thr), O, H, F), out),
                        dict(func="QuantileMapping.apply_on_window", mapping_type=mt, detrending=det, cdf_threshold=str(thr), **info), ("qm", mt, det))
            # ECDFM
            thr = Fraction(1, 10 ** r.choice([2, 10]))
            out = D.ECDFM(distribution=rat, cdf_threshold=float(thr)).apply_on_window(fo, fh, ff)
            tol = C.tol_for(list(out)) * 1000
            add("close_list (ecdfm_apply_on_window ratls %s %s %s %s) %s %s" % (C.q(thr), O, H, F, C.ql(out), C.q(tol)),
                dict(func="ECDFM.apply_on_window", cdf_threshold=str(thr), **info), ("ecdfm",))
            # QuantileDeltaMapping (tie-free cm_future for the interpolated ecdf)
            if len(set(f)) == len(f):
                for tp in ("absolute", "relative"):
                    if tp == "relative" and not pos: continue
                    em = r.choice(["step_function", "linear_interpolation"])
                    cz = r.random() < 0.5
                    cth = Fraction(r.randint(1, 80), 16)
                    thr = Fraction(1, r.choice([50, 1000]))
                    d = D.QuantileDeltaMapping(distribution=rat, trend_preservation=tp, censor_values_to_zero=cz, censoring_threshold=float(cth),
                                               ecdf_method=em, cdf_threshold=float(thr), running_window_mode=False, running_window_mode_over_years_of_cm_future=False)
                    fit_o, fit_h = d._get_obs_and_cm_hist_fits(fo, fh)
                    out = d._apply_debiasing_steps(ff.copy(), fit_o, fit_h)
                    add(opt_close("qdm_apply_debiasing_steps %s %s %s ratls %s %s %s (ratls_fit %s) (ratls_fit %s)" % (
                            em, C.q(thr), S(tp), "true" if cz else "false", C.q(cth), F, O, H), out),
                        dict(func="QuantileDeltaMapping._apply_debiasing_steps", trend_preservation=tp, ecdf_method=em, censor=cz, **info), ("qdm", tp, em, cz))
            # CDFt (tie-free samples for the interpolated ecdf; discrete iecdf only with the step ecdf at dyadic grids excluded)
            if len(set(f)) == len(f) and len(set(o)) == len(o) and len(set(h)) == len(h):
                for ds in ("additive", "multiplicative", "no_shift"):
                    if ds == "multiplicative" and not pos: continue
                    # the step ecdf after a continuous quantile that lands exactly on sample values is float-unstable
                    # (discontinuity hit exactly): the CDFt chain is compared for the continuous (interpolated) ecdf only
                    em = "linear_interpolation"
                    im = r.choice(["linear", "hazen", "weibull", "median_unbiased", "normal_unbiased", "interpolated_inverted_cdf"])
                    d = D.CDFt(delta_shift=ds, ecdf_method=em, iecdf_method=im)
                    out = d._apply_CDFt_mapping(fo, fh, ff)
                    add(opt_close("cdft_apply_mapping %s %s %s %s %s %s" % (S(ds), em, im, O, H, F), out),
                        dict(func="CDFt._apply_CDFt_mapping", delta_shift=ds, ecdf_method=em, iecdf_method=im, **info), ("cdft", ds, em, im))
    fails, errors = cc.run()
    res.components["K5 Gen/GenScalars.v (regenerated per-window methods) vs the real methods"] = dict(cases=len(cc.cases), disagreements=len(fails), errors=len(errors))
    for e in errors[:3]:
        res.broke("correspondence-error", "K5", e)
    for i in fails[:5]:
        res.broke("correspondence", "K5 " + meta[i]["func"], meta[i])

def k15(res, tier, seed, tag="k15"):
    """K15: hand model Model/SDM.v (ScaledDistributionMapping, absolute) vs the real apply_on_window, with the
    rational location-scale family as distribution; tie-free dyadic samples (np.argsort is not stable)."""
    logging.getLogger("ibicus").setLevel(logging.CRITICAL)
    import ibicus.debias as D
    r = C.rng_for(seed, tag)
    n = 25 if tier == "quick" else 250
    cc = C.CoqCases(tag, ["QL", "Dist", "Ecdf", "RatLS", "SDM", "CorrBase"], per_file=40)
    meta = []
    rat = ratls_model()
    with warnings.catch_warnings():
        warnings.simplefilter("ignore")
        for i in range(n):
            no, nh, nf = r.randint(3, 12), r.randint(3, 12), r.randint(2, 12)
            lo, hi = r.choice([(0, 40), (-6, 6), (250, 300)])
            o, h, f = sample(r, no, lo, hi, 16, True), sample(r, nh, lo, hi, 16, True), sample(r, nf, lo, hi, 16, True)
            d = D.ScaledDistributionMapping(distribution=rat, mapping_type="absolute")
            out = d.apply_on_window(fl(o), fl(h), fl(f))
            if not np.all(np.isfinite(out)):
                res.count("k15-nonfinite-skipped"); continue
            tol = C.tol_for(list(out)) * 1000
            cc.add("close_list (sdm_absolute ratls snd %s %s %s) %s %s" % (C.ql(o), C.ql(h), C.ql(f), C.ql(out), C.q(tol)))
            m = dict(func="ScaledDistributionMapping._apply_on_window_absolute_sdm", obs=[str(x) for x in o], cm_hist=[str(x) for x in h], cm_future=[str(x) for x in f])
            meta.append(m); res.case(("sdm-abs", nf > no, lo < 0), sample=m if len(res.samples) < 5 else None)
    fails, errors = cc.run()
    res.components["K15 Model/SDM.v (hand model) vs ScaledDistributionMapping._apply_on_window_absolute_sdm"] = dict(cases=len(cc.cases), disagreements=len(fails), errors=len(errors))
    for e in errors[:3]:
        res.broke("correspondence-error", "K15", e)
    for i in fails[:5]:
        res.broke("correspondence", "K15 " + meta[i]["func"], meta[i])

def k15_relative(res, tier, seed, tag="k15r"):
    """K15 (relative variant): hand model sdm_relative vs the real apply_on_window, rational location-scale family as
    distribution, zero-inflated dyadic samples; the ValueError for a series without wet values is compared as None."""
    logging.getLogger("ibicus").setLevel(logging.CRITICAL); logging.getLogger("ibicus").disabled = True
    import ibicus.debias as D
    r = C.rng_for(seed, tag)
    n = 25 if tier == "quick" else 250
    cc = C.CoqCases(tag, ["QL", "Dist", "Ecdf", "RatLS", "SDM", "CorrBase"], per_file=40)
    meta = []
    rat = ratls_model()
    with warnings.catch_warnings():
        warnings.simplefilter("ignore")
        for i in range(n):
            no, nh, nf = r.randint(3, 12), r.randint(3, 12), r.randint(2, 12)
            dry = r.choice([0.0, 0.3, 0.6])
            def mk(k):
                # wet values are distinct (np.argsort is not stable); dry days are exact zeros
                wet = sample(r, k, 1, 40, 16, True)
                return [Fraction(0) if r.random() < dry else w for w in wet]
            o, h, f = mk(no), mk(nh), mk(nf)
            thr = Fraction(r.choice([1, 8, 24]), 16); cth = Fraction(1, r.choice([100, 1000]))
            # expected number of rainy days = round(rainy_f * (rainy_o / n_o) / (rainy_h / n_h)): when the exact value is a
            # half-integer the float evaluation lands on either side of the tie (2.5000000000000004 vs 2.5) — a discontinuity
            # hit exactly after inexact arithmetic: skipped and counted
            ro, rh_, rf_ = sum(1 for v in o if v >= thr), sum(1 for v in h if v >= thr), sum(1 for v in f if v >= thr)
            if ro and rh_ and rf_ and (Fraction(rf_) * Fraction(ro, no) / Fraction(rh_, nh)).denominator == 2:
                res.count("k15-skipped-at-rounding-tie"); continue
            d = D.ScaledDistributionMapping(distribution=rat, mapping_type="relative", pr_lower_threshold=float(thr), cdf_threshold=float(cth))
            args = "ratls %s %s %s %s %s" % (C.q(thr), C.q(cth), C.ql(o), C.ql(h), C.ql(f))
            try:
                out = d.apply_on_window(fl(o), fl(h), fl(f))
            except ValueError:
                cc.add("(match sdm_relative %s with None => true | _ => false end)" % args); kind = "raises"
            else:
                if not np.all(np.isfinite(out)):
                    res.count("k15-nonfinite-skipped"); continue
                tol = C.tol_for(list(out)) * 1000
                cc.add("(match sdm_relative %s with Some l__ => close_list l__ %s %s | None => false end)" % (args, C.ql(out), C.q(tol))); kind = "value"
            m = dict(func="ScaledDistributionMapping._apply_on_window_relative_sdm", obs=[str(x) for x in o], cm_hist=[str(x) for x in h], cm_future=[str(x) for x in f], threshold=str(thr), impl=kind)
            meta.append(m); res.case(("sdm-rel", kind, dry > 0), sample=m if len(res.samples) < 5 else None)
    logging.getLogger("ibicus").disabled = False
    fails, errors = cc.run()
    res.components["K15 Model/SDM.v (hand model) vs ScaledDistributionMapping._apply_on_window_relative_sdm"] = dict(cases=len(cc.cases), disagreements=len(fails), errors=len(errors))
    for e in errors[:3]:
        res.broke("correspondence-error", "K15", e)
    for i in fails[:5]:
        res.broke("correspondence", "K15 " + meta[i]["func"], meta[i])

def k17(res, tier, seed, tag="k17"):
    """K17: hand model Model/IsimipStep5.v vs ISIMIP._step5_transfer_trend for the additive, multiplicative and bounded
    methods (tie-free dyadic samples; 'mixed' uses a cosine weight and is not modelled)."""
    logging.getLogger("ibicus").setLevel(logging.CRITICAL)
    from ibicus.debias import ISIMIP
    import scipy.stats
    r = C.rng_for(seed, tag)
    n = 30 if tier == "quick" else 300
    cc = C.CoqCases(tag, ["QL", "Ecdf", "IsimipStep5", "CorrBase"], per_file=50)
    meta = []
    with warnings.catch_warnings():
        warnings.simplefilter("ignore")
        for i in range(n):
            meth = ["additive", "multiplicative", "bounded"][i % 3]
            no, nh, nf = r.randint(3, 12), r.randint(3, 12), r.randint(3, 12)
            o, h, f = sample(r, no, 1, 9, 16, True), sample(r, nh, 1, 9, 16, True), sample(r, nf, 1, 9, 16, True)
            if meth == "bounded" and i % 2: h[0] = o[0]          # an entry without bias
            im = r.choice(["linear", "inverted_cdf", "hazen"]); em = "linear_interpolation" if im != "inverted_cdf" else r.choice(["step_function", "linear_interpolation"])
            if im == "inverted_cdf":
                # floor((m-1) p) at an exact integer: the grids of p (np.linspace, statsmodels) are inexact, either side may be taken
                ps = [Fraction(k, no - 1) for k in range(no)] if em == "linear_interpolation" else [Fraction(k + 1, no) for k in range(no)]
                if any(((m_ - 1) * p_).denominator == 1 and p_ not in (0, 1) for p_ in ps for m_ in (nh, nf)):
                    res.count("k17-skipped-at-float-discontinuity"); continue
            d = ISIMIP(trend_preservation_method=meth, distribution=scipy.stats.norm, nonparametric_qm=False, detrending=False, lower_bound=0.0, lower_threshold=0.5,
                       upper_bound=10.0, upper_threshold=9.5, ecdf_method=em, iecdf_method=im)
            out = d._step5_transfer_trend(fl(o), fl(h), fl(f))
            tol = C.tol_for(list(out)) * 1000
            M = {"additive": "TAdditive", "multiplicative": "TMultiplicative", "bounded": "TBounded"}[meth]
            cc.add("close_list (step5 %s %s %s 0 10 %s %s %s) %s %s" % (M, em, im, C.ql(o), C.ql(h), C.ql(f), C.ql(out), C.q(tol)))
            m = dict(func="ISIMIP._step5_transfer_trend", method=meth, ecdf=em, iecdf=im, obs_hist=[str(x) for x in o], cm_hist=[str(x) for x in h], cm_future=[str(x) for x in f])
            meta.append(m); res.case(("step5", meth, em, im), sample=m if len(res.samples) < 5 else None)
    fails, errors = cc.run()
    res.components["K17 Model/IsimipStep5.v (hand model) vs ISIMIP._step5_transfer_trend"] = dict(cases=len(cc.cases), disagreements=len(fails), errors=len(errors))
    for e in errors[:3]:
        res.broke("correspondence-error", "K17", e)
    for i in fails[:5]:
        res.broke("correspondence", "K17 " + meta[i]["func"], meta[i])


def k18(res, tier, seed, tag="k18"):
    """K18: hand model Model/IsimipStep1.v vs ISIMIP steps 1 and 8 (annual cycle of upper bounds: multi-year daily maxima,
    running maximum / running mean with wrap-around for odd AND even sizes, sizes longer than the number of days; debiased
    cycle in both branches; scaling and rescaling by day, with and without all 366 days present)."""
    logging.getLogger("ibicus").setLevel(logging.CRITICAL)
    from ibicus.debias import ISIMIP
    r = C.rng_for(seed, tag)
    n = 24 if tier == "quick" else 240
    cc = C.CoqCases(tag, ["NP", "QL", "IsimipStep1", "CorrBase", "Step1Corr"], per_file=40)
    meta = []
    def cycle(k, zeros=False):
        c = sample(r, k, 0, 9, 16)
        if zeros:
            for j in range(k):
                if r.random() < 0.2: c[j] = Fraction(0)
        return c
    with warnings.catch_warnings():
        warnings.simplefilter("ignore")
        for i in range(n):
            kind = ["cycle", "debiased-same", "debiased-different", "scale", "rescale", "cycle"][i % 6]
            if kind == "cycle":
                size = r.choice([1, 2, 3, 4, 5, 6, 7, 9, 12, 31])
                nd = r.randint(1, 12); first = r.randint(1, 366 - nd)
                udays = sorted(r.sample(range(first, min(first + nd + 3, 367)), min(nd, min(first + nd + 3, 367) - first)))
                days = [d for d in udays for _ in range(r.randint(1, 3))]; r.shuffle(days)
                vals = sample(r, len(days), 0, 9, 16)
                d = ISIMIP.from_variable("rsds", window_length_annual_cycle_of_upper_bounds=size)
                cyc, ud = d._step1_get_annual_cycle_of_upper_bounds(fl(vals), np.array(days))
                cc.add("k18_cycle %s %s %s %s %s %s" % (C.z(size), C.zl(days), C.ql(vals), C.ql(cyc), C.zl(ud), C.q(C.tol_for(list(cyc)) * 100)))
                m = dict(func="ISIMIP._step1_get_annual_cycle_of_upper_bounds", size=size, days=days, vals=[str(v) for v in vals])
            elif kind.startswith("debiased"):
                k = r.randint(2, 8)
                uf = sorted(r.sample(range(1, 20), k))
                if kind == "debiased-same": uo = uh = uf
                else:
                    uo = sorted(r.sample(range(1, 20), r.randint(2, 8))); uh = sorted(r.sample(range(1, 20), r.randint(2, 8)))
                co, ch, cf = cycle(len(uo)), cycle(len(uh), True), cycle(len(uf))
                out = ISIMIP._step1_calculate_debiased_annual_cycle_of_upper_bounds(fl(co), np.array(uo), fl(ch), np.array(uh), fl(cf), np.array(uf))
                cc.add("close_list (debiased_cycle %s %s %s %s %s %s) %s %s" % (C.ql(co), C.zl(uo), C.ql(ch), C.zl(uh), C.ql(cf), C.zl(uf), C.ql(out), C.q(C.tol_for(list(out)) * 100)))
                m = dict(func="ISIMIP._step1_calculate_debiased_annual_cycle_of_upper_bounds", kind=kind, uo=uo, uh=uh, uf=uf, co=[str(v) for v in co], ch=[str(v) for v in ch], cf=[str(v) for v in cf])
            else:
                full = (i % 12) >= 6
                ud = list(range(1, 367)) if full else sorted(r.sample(range(1, 367), r.randint(2, 10)))
                cyc = cycle(len(ud), kind == "scale")
                days = [r.choice(ud) for _ in range(r.randint(1, 12))]
                vals = sample(r, len(days), 0, 9, 16)
                f = ISIMIP._step1_scale_by_annual_cycle_of_upper_bounds if kind == "scale" else ISIMIP._step8_rescale_by_annual_cycle_of_upper_bounds
                out = f(fl(vals), np.array(days), fl(cyc), np.array(ud))
                M = "step1_scale" if kind == "scale" else "step8_rescale"
                cc.add("k18_opt (%s %s %s %s %s) %s %s" % (M, C.ql(vals), C.zl(days), C.ql(cyc), C.zl(ud), C.ql(out), C.q(C.tol_for(list(out)) * 100)))
                m = dict(func="ISIMIP._" + M, all_366_days=full, days=days, vals=[str(v) for v in vals], cycle_days=(ud if not full else "1..366"), cycle=([str(v) for v in cyc] if not full else "…"))
            meta.append(m); res.case(("step1", kind, m.get("size"), m.get("all_366_days")), sample=m if len(res.samples) < 5 else None)
    fails, errors = cc.run()
    res.components["K18 Model/IsimipStep1.v (hand model) vs ISIMIP steps 1 and 8 (annual cycle of upper bounds)"] = dict(cases=len(cc.cases), disagreements=len(fails), errors=len(errors))
    for e in errors[:3]:
        res.broke("correspondence-error", "K18", e)
    for i in fails[:5]:
        res.broke("correspondence", "K18 " + meta[i]["func"], meta[i])


def k21(res, tier, seed, tag="k21"):
    """K21: hand model Model/IsimipStep3.v vs ISIMIP._step3_remove_trend (annual means, least-squares slope, trend centred on
    the mean of the years, mapped back onto the time steps) with scipy's significance decision recorded from the same data:
    1..8 years of unequal lengths, years in any storage order, with and without a trend, with and without the test."""
    logging.getLogger("ibicus").setLevel(logging.CRITICAL)
    from ibicus.debias import ISIMIP
    import scipy.stats
    from ibicus.utils import get_years_and_yearly_means
    r = C.rng_for(seed, tag)
    n = 24 if tier == "quick" else 240
    cc = C.CoqCases(tag, ["NP", "QL", "IsimipStep3", "CorrBase", "Step1Corr"], per_file=40)
    meta = []
    with warnings.catch_warnings():
        warnings.simplefilter("ignore")
        for i in range(n):
            ny = r.choice([1, 2, 3, 4, 6, 8]); y0 = r.randint(1950, 2090)
            ys = sorted(r.sample(range(y0, y0 + ny + 3), ny))          # gaps between years allowed
            years = [y for y in ys for _ in range(r.randint(1, 5))]
            slope = r.choice([0, 0, 1, -2, 5])
            x = [Fraction(slope * (y - y0)) + dy(r, -3, 3, 16) for y in years]
            if i % 3 == 0:
                p_ = list(range(len(years))); r.shuffle(p_); years = [years[k] for k in p_]; x = [x[k] for k in p_]
            test = (i % 4 != 3)
            d = ISIMIP.from_variable("tas", detrending_with_significance_test=test)
            uy, am = get_years_and_yearly_means(fl(x), np.array(years))
            pv = scipy.stats.linregress(uy, am).pvalue if len(uy) > 1 else float("nan")
            sig = bool(pv < 0.05 and test)
            if abs(pv - 0.05) < 1e-6: res.count("k21-skipped-at-significance-boundary"); continue
            try:
                out, trend = d._step3_remove_trend(fl(x), np.array(years))
            except Exception as e:
                res.broke("correspondence-error", "K21 implementation raised", dict(years=years, error=repr(e)[:200])); continue
            if not np.all(np.isfinite(out)):
                res.count("k21-skipped-nonfinite"); continue
            tol = C.tol_for(list(out)) * 1000
            cc.add("k21 %s %s %s %s %s %s" % ("true" if sig else "false", C.zl(years), C.ql(x), C.ql(out), C.ql(trend), C.q(tol)))
            m = dict(func="ISIMIP._step3_remove_trend", years=years, x=[str(v) for v in x], significant=sig, significance_test=test)
            meta.append(m); res.case(("step3", ny, sig, test, i % 3 == 0), sample=m if len(res.samples) < 5 else None)
    fails, errors = cc.run()
    res.components["K21 Model/IsimipStep3.v (hand model) vs ISIMIP._step3_remove_trend"] = dict(cases=len(cc.cases), disagreements=len(fails), errors=len(errors))
    for e in errors[:3]:
        res.broke("correspondence-error", "K21", e)
    for i in fails[:5]:
        res.broke("correspondence", "K21 " + meta[i]["func"], meta[i])


def k22(res, tier, seed, tag="k22"):
    """K22: the composed window pipeline Model/IsimipWindow.v vs the real ISIMIP._apply_on_window for an unbounded additive
    variable (tas settings) with the rational location-scale distribution, the KS fallback off and step 3's three
    significance decisions recorded from the same data; tie-free dyadic samples over 2..5 years."""
    logging.getLogger("ibicus").setLevel(logging.CRITICAL)
    from ibicus.debias import ISIMIP
    import scipy.stats
    from ibicus.utils import get_years_and_yearly_means
    r = C.rng_for(seed, tag)
    n = 16 if tier == "quick" else 160
    cc = C.CoqCases(tag, ["NP", "QL", "Dist", "Ecdf", "RatLS", "IsimipStep3", "IsimipStep5", "IsimipWindow", "CorrBase", "Step1Corr"], per_file=20)
    meta = []
    def sig_of(x, years, test):
        uy, am = get_years_and_yearly_means(fl(x), np.array(years))
        pv = scipy.stats.linregress(uy, am).pvalue if len(uy) > 1 else float("nan")
        return bool(pv < 0.05 and test), pv
    with warnings.catch_warnings():
        warnings.simplefilter("ignore")
        for i in range(n):
            im = r.choice(["linear", "inverted_cdf", "hazen"]); em = "linear_interpolation" if im != "inverted_cdf" else r.choice(["step_function", "linear_interpolation"])
            test = (i % 4 != 3)
            def series(ny, slope):
                y0 = r.randint(1950, 2090); ys = list(range(y0, y0 + ny))
                years = [y for y in ys for _ in range(r.randint(2, 4))]
                vals = set()
                while len(vals) < len(years): vals.add(dy(r, -6, 6, 64))
                vals = list(vals); r.shuffle(vals)
                return years, [v + Fraction(slope * (y - y0)) for v, y in zip(vals, years)]
            yo, o = series(r.randint(2, 5), r.choice([0, 0, 2])); yh, h = series(r.randint(2, 5), r.choice([0, 0, -3])); yf, f = series(r.randint(2, 5), r.choice([0, 4, 1]))
            if im == "inverted_cdf":
                no, nh, nf = len(o), len(h), len(f)
                ps = [Fraction(k, no - 1) for k in range(no)] if em == "linear_interpolation" else [Fraction(k + 1, no) for k in range(no)]
                if any(((m_ - 1) * p_).denominator == 1 and p_ not in (0, 1) for p_ in ps for m_ in (nh, nf)):
                    res.count("k22-skipped-at-float-discontinuity"); continue
            sigs = [sig_of(x_, y_, test) for x_, y_ in ((o, yo), (h, yh), (f, yf))]
            if any(abs(pv - 0.05) < 1e-6 for _, pv in sigs): res.count("k22-skipped-at-significance-boundary"); continue
            d = ISIMIP.from_variable("tas", distribution=ratls_model(), ks_test_for_goodness_of_cdf_fit=False, detrending_with_significance_test=test,
                                     ecdf_method=em, iecdf_method=im)
            try:
                out = d._apply_on_window(fl(o), fl(h), fl(f), years_obs_hist=np.array(yo), years_cm_hist=np.array(yh), years_cm_future=np.array(yf))
            except Exception as e:
                res.broke("correspondence-error", "K22 implementation raised", dict(error=repr(e)[:300])); continue
            if not np.all(np.isfinite(out)): res.count("k22-skipped-nonfinite"); continue
            tol = C.tol_for(list(out)) * 10000
            b = lambda v: "true" if v else "false"
            cc.add("k22 %s %s %s %s %s %s %s %s %s %s %s %s %s" % (em, im, b(sigs[0][0]), b(sigs[1][0]), b(sigs[2][0]), C.zl(yo), C.zl(yh), C.zl(yf), C.ql(o), C.ql(h), C.ql(f), C.ql(out), C.q(tol)))
            m = dict(func="ISIMIP._apply_on_window (tas, rational distribution)", ecdf=em, iecdf=im, significant=[s for s, _ in sigs], n=[len(o), len(h), len(f)])
            meta.append(m); res.case(("window", em, im, tuple(s for s, _ in sigs)), sample=m if len(res.samples) < 5 else None)
    fails, errors = cc.run()
    res.components["K22 Model/IsimipWindow.v (composition of the step models) vs ISIMIP._apply_on_window"] = dict(cases=len(cc.cases), disagreements=len(fails), errors=len(errors))
    for e in errors[:3]:
        res.broke("correspondence-error", "K22", e)
    for i in fails[:5]:
        res.broke("correspondence", "K22 " + meta[i]["func"], meta[i])
