"""C14 — input contract.
Tie: Gen/GenChecks.v (check list extracted from Debiaser._check_inputs_and_convert_if_possible,
_check_output, and the position of the check in both apply methods) + translated
check_time_information_and_raise_error; hand interpreter Model/Checks.v.
Correspondence K9: real arrays built for argument descriptors (every malformation class in every
argument position) through the real apply of a probe debiaser and of real debiasers; outcome
(exception class / ordered warning list / output warnings) compared with the interpreter inside Coq.
Search: the contract itself on the implementation (TypeError / ValueError classes, no location
processed before rejection, conversions, time-array mismatch)."""
import itertools, logging, warnings
import numpy as np
from . import common as C

GEN_FILES = ["GenChecks", "GenUtils"]
TRUSTED = ["C14: the meaning of each predicate on real arrays (isinstance, np.issubdtype, ndim, shape[1:], isnan/isinf, masked arrays) is modelled by the descriptor semantics of Model/Checks.v, tied by correspondence K9",
           "C14: for masked arguments the non-finite and range warnings are evaluated by NumPy on masked arrays; they are compared only for unmasked arguments (permitted-but-not-required otherwise)"]

ARG = ["obs", "cm_hist", "cm_future"]
ANAME = {"obs": "A_obs", "cm_hist": "A_cm_hist", "cm_future": "A_cm_future", "The": "A_output"}

def classify(msg):
    if "float dtype" in msg: return "W_dtype"
    if "The debiaser output contains inf or nan" in msg: return "W_out_nonfinite"
    if "The debiaser output contains values outside" in msg: return "W_out_range"
    if "inf or nan" in msg: return "W_nonfinite"
    if "reasonable physical range" in msg: return "W_range"
    if "masked array and contains cells with invalid" in msg: return "W_masked_invalid"
    if "masked array, but contains no invalid" in msg: return "W_masked_valid"
    return None

def probe(range_configured, kind="Debiaser"):
    import attrs
    from ibicus.debias._debiaser import Debiaser
    from ibicus.debias import DeltaChange
    calls = []
    if kind == "Debiaser":
        @attrs.define(slots=False)
        class P(Debiaser):
            def __attrs_post_init__(self): pass
            @classmethod
            def from_variable(cls, v, **kw): return cls(**kw)
            def apply_location(self, obs, cm_hist, cm_future, **kw):
                calls.append(1)
                return cm_future
        d = P(reasonable_physical_range=[100.0, 400.0] if range_configured else None)
    else:
        class P(DeltaChange):
            def apply_location(self, obs, cm_hist, cm_future, **kw):
                calls.append(1)
                return obs
        d = P(delta_type="additive", reasonable_physical_range=[100.0, 400.0] if range_configured else None)
    return d, calls

def build(desc, T, spatial):
    """desc: dict(nd, dt, ndim, nonfinite, oor, msk) -> python object"""
    if not desc["nd"]:
        return [[1.0]] if desc["nd"] is False else None
    shape = {3: (T,) + spatial, 2: (T, spatial[0]), 4: (T,) + spatial + (1,)}[desc["ndim"]]
    n = int(np.prod(shape))
    if desc["dt"] == "float64": x = (280.0 + np.arange(n) % 7).reshape(shape)
    elif desc["dt"] == "float32": x = (280.0 + np.arange(n) % 7).astype(np.float32).reshape(shape)
    elif desc["dt"] == "int": x = (280 + np.arange(n) % 7).astype(int).reshape(shape)
    elif desc["dt"] == "numstr": x = np.array(["%d.5" % (280 + i % 7) for i in range(n)]).reshape(shape)
    elif desc["dt"] == "unconv": x = np.array(["a%d" % i for i in range(n)]).reshape(shape)
    else: raise ValueError(desc["dt"])
    flat = x.reshape(-1)
    if desc["oor"]:
        flat[0] = "1000.5" if desc["dt"] == "numstr" else 1000
    if desc["nonfinite"]:
        flat[-1] = {"nan": np.nan, "inf": np.inf, "neginf": -np.inf}[desc["nonfinite"]]
    if desc["msk"] != "no":
        m = np.zeros(shape, dtype=bool)
        if desc["msk"] == "invalid":
            m.reshape(-1)[n // 2] = True
        x = np.ma.array(x, mask=m)
    return x

def feasible(desc):
    if not desc["nd"]:
        return True
    if desc["nonfinite"] and not desc["dt"].startswith("float"):
        return False
    if desc["dt"] == "unconv" and (desc["oor"] or desc["nonfinite"] or desc["msk"] != "no"):
        return False
    if desc["dt"] == "numstr" and desc["msk"] != "no":
        return False
    return True

def coq_desc(desc):
    dt = {"float64": "DFloat", "float32": "DFloat", "int": "DConvertible", "numstr": "DConvertible", "unconv": "DUnconvertible"}[desc["dt"]] if desc["nd"] else "DFloat"
    msk = {"no": "NotMasked", "valid": "MaskedValid", "invalid": "MaskedInvalid"}[desc["msk"]] if desc["nd"] else "NotMasked"
    b = lambda v: "true" if v else "false"
    return "(mkDesc %s %s %s %s %s %s)" % (b(desc["nd"] is True), dt, b(desc.get("ndim", 3) == 3), b(bool(desc.get("nonfinite"))), b(bool(desc.get("oor"))), msk)

def rand_desc(r, p_bad=0.25):
    d = dict(nd=True, dt="float64", ndim=3, nonfinite=False, oor=False, msk="no")
    if r.random() < 0.06:
        d["nd"] = r.choice([False, None]); return d
    d["dt"] = r.choice(["float64"] * 4 + ["float32", "int", "int", "numstr"] + (["unconv"] if r.random() < p_bad else []))
    if r.random() < p_bad * 0.5: d["ndim"] = r.choice([2, 4])
    if d["dt"].startswith("float") and r.random() < 0.3: d["nonfinite"] = r.choice(["nan", "inf", "neginf"])
    if r.random() < 0.3: d["oor"] = True
    if r.random() < 0.3 and d["dt"] != "numstr": d["msk"] = r.choice(["valid", "invalid"])
    if not feasible(d):
        return rand_desc(r, p_bad)
    return d

def run_impl(descs, same_spatial, range_configured, kind="Debiaser", diff_pos=None, variant=None):
    d, calls = probe(range_configured, kind)
    Ts = [3, 4, 5]
    if diff_pos is None:
        diff_pos = (sum(len(str(x)) for x in descs) + int(range_configured)) % 3    # deterministic choice of the differing argument
    sp = [(2, 3), (2, 3), (2, 3)]
    if not same_spatial:
        # the differing argument differs in both spatial axes, only the first, or only the last (larger / smaller)
        h = sum(len(str(x)) * (k + 1) for k, x in enumerate(descs)) + 2 * int(range_configured) + (0 if kind == "Debiaser" else 1)
        sp[diff_pos] = [(3, 2), (3, 3), (2, 4), (2, 2)][(h if variant is None else variant) % 4]
    arrs = [build(x, T, s) for x, T, s in zip(descs, Ts, sp)]
    with warnings.catch_warnings(record=True) as w:
        warnings.simplefilter("always")
        try:
            out = d.apply(*arrs, progressbar=False)
            res = "ok"
        except TypeError:
            res, out = "E_Type", None
        except ValueError:
            res, out = "E_Value", None
        except Exception as e:
            res, out = "other:" + type(e).__name__, None
    ws = []
    for x in w:
        k = classify(str(x.message))
        if k:
            ws.append((k, ANAME[str(x.message).split(" ")[0]]))
    return res, ws, out, len(calls)

def correspondence(res, tier, seed):
    logging.getLogger("ibicus").setLevel(logging.CRITICAL)
    r = C.rng_for(seed, "c14-corr")
    n = 500 if tier == "quick" else 6000
    cc = C.CoqCases("c14", ["ChecksBase", "GenChecks", "Checks", "C14corr", "CorrBase"], per_file=250)
    meta = []
    cases = []
    # systematic: every single malformation class in every argument position, others good
    good = dict(nd=True, dt="float64", ndim=3, nonfinite=False, oor=False, msk="no")
    singles = [dict(good, nd=False), dict(good, nd=None), dict(good, dt="float32"), dict(good, dt="int"), dict(good, dt="numstr"), dict(good, dt="unconv"),
               dict(good, ndim=2), dict(good, ndim=4), dict(good, nonfinite="nan"), dict(good, nonfinite="inf"), dict(good, nonfinite="neginf"), dict(good, oor=True),
               dict(good, msk="valid"), dict(good, msk="invalid"), dict(good, msk="invalid", oor=True), dict(good, dt="int", msk="invalid"),
               dict(good, dt="int", oor=True)]
    for pos in range(3):
        for s in singles:
            for rc in (True, False):
                ds = [dict(good) for _ in range(3)]; ds[pos] = s
                cases.append((ds, True, rc))
    for rc in (True, False):
        cases.append(([dict(good) for _ in range(3)], False, rc))
        cases.append(([dict(good), dict(good, oor=True), dict(good)], False, rc))
        cases.append(([dict(good), dict(good), dict(good, dt="int")], False, rc))
    for _ in range(n):
        cases.append(([rand_desc(r) for _ in range(3)], r.random() > 0.1, r.random() < 0.7))
    for ds, same, rc in cases:
        if all(x["nd"] is True and x.get("ndim", 3) == 3 for x in ds) is False:
            same_eff = same
        kind = "Debiaser" if r.random() < 0.8 else "DeltaChange"
        out_res, ws, out, ncalls = run_impl(ds, same, rc, kind)
        masked_args = [ANAME[a] for a, x in zip(ARG, ds) if x["nd"] is True and x["msk"] != "no"]
        st = "(mkState %s %s %s %s %s)" % (coq_desc(ds[0]), coq_desc(ds[1]), coq_desc(ds[2]), "true" if same else "false", "true" if rc else "false")
        inw = [x for x in ws if not x[0].startswith("W_out")]
        outw = [x for x in ws if x[0].startswith("W_out")]
        wl = "[" + "; ".join("(%s, %s)" % x for x in inw) + "]"
        if out_res == "ok":
            exp = "(Some (inr %s))" % wl
        elif out_res in ("E_Type", "E_Value"):
            exp = "(Some (inl %s))" % out_res
        else:
            exp = "None"
        cc.add("agree_input %s [%s] %s" % (st, "; ".join(masked_args), exp))
        m = dict(descs=ds, same_spatial=same, range_configured=rc, kind=kind, impl=out_res, warnings=ws, calls=ncalls)
        meta.append(m)
        key = (out_res, tuple(sorted(set(k for k, _ in ws))), kind)
        res.case(key, sample=dict(descs=[{k: str(v) for k, v in x.items()} for x in ds], impl=out_res, warnings=ws) if len(res.samples) < 4 else None)
        res.count("outcome/" + out_res)
    fails, errors = cc.run()
    res.components["K9 Model/Checks.v + GenChecks vs Debiaser.apply"] = dict(cases=len(cc.cases), disagreements=len(fails), errors=len(errors))
    for e in errors[:3]:
        res.broke("correspondence-error", "K9", e)
    for i in fails[:5]:
        res.broke("correspondence", "K9", {k: (str(v) if k == "descs" else v) for k, v in meta[i].items()})
    res.rule = ("systematic: each of 16 single malformation/conversion classes in each of the 3 argument positions x range configured or not, plus differing spatial shapes; "
                "random: independent descriptors per argument (non-ndarray, float64/float32/int/numeric-str/non-numeric dtype, ndim 2/3/4, NaN/inf, out-of-range, masked valid/invalid), "
                "differing time lengths always (3,4,5); distinct/non-trivial = distinct (outcome, warning kinds, apply variant) classes")

# ------------------------------------------------------------------ search
def search(res, tier, seed, deep=False):
    import datetime
    logging.getLogger("ibicus").setLevel(logging.CRITICAL)
    from ibicus.utils import create_array_of_consecutive_dates
    r = C.rng_for(seed, "c14-search")
    seen = set()
    def report(cls_, inp, obs, stmt):
        if cls_ in seen: return
        seen.add(cls_)
        res.witness(dict(component="Debiaser.apply", statement=stmt, input=inp, observed=obs, expected="C14 input contract", **{"class": cls_}))
    good = dict(nd=True, dt="float64", ndim=3, nonfinite=False, oor=False, msk="no")
    # systematic: well-formed arrays, one argument with another spatial shape (each position x each way of differing)
    for kind in ("Debiaser", "DeltaChange"):
        for pos in range(3):
            for variant in range(4):
                out_res, ws, out, ncalls = run_impl([dict(good)] * 3, False, False, kind, diff_pos=pos, variant=variant)
                res.case(("shape-mismatch", kind, pos, variant))
                if out_res != "E_Value" or ncalls > 0:
                    report("spatial-shape-accepted", dict(kind="shape", apply=kind, differing_argument=ARG[pos] if isinstance(ARG, (list, tuple)) else pos, variant=["both axes", "first axis", "last axis larger", "last axis smaller"][variant]),
                           [out_res, ncalls], "arrays whose spatial shapes differ must be rejected with ValueError before any location is processed")
    n = 150 if tier == "quick" else 1500
    for i in range(n):
        ds = [rand_desc(r, 0.3) for _ in range(3)]
        same = r.random() > 0.15; rc = r.random() < 0.7
        kind = "Debiaser" if i % 3 else "DeltaChange"
        out_res, ws, out, ncalls = run_impl(ds, same, rc, kind)
        inp = dict(kind="contract", descs=ds, same_spatial=same, range_configured=rc, apply=kind)
        any_non_nd = any(x["nd"] is not True for x in ds)
        res.case(("contract", out_res, kind))
        if any_non_nd != (out_res == "E_Type"):
            report("type-error-class", inp, out_res, "TypeError must be raised exactly when some argument is not an ndarray")
        if not any_non_nd:
            bad_val = any(x["dt"] == "unconv" for x in ds) or any(x["ndim"] != 3 for x in ds) or not same
            if bad_val != (out_res == "E_Value"):
                report("value-error-class", inp, out_res, "ValueError must be raised exactly for unconvertible dtype, ndim != 3 or differing spatial shapes")
        if out_res in ("E_Type", "E_Value") and ncalls > 0:
            report("result-before-rejection", inp, ncalls, "locations were processed before the input was rejected")
        if out_res == "ok":
            if not np.issubdtype(out.dtype, np.floating) or isinstance(out, np.ma.MaskedArray):
                report("not-converted", inp, str(out.dtype), "accepted input must be converted to a plain floating array")
            kinds = set(ws)
            for a, x in zip(ARG, ds):
                A = ANAME[a]
                if (x["dt"] in ("int", "numstr")) != (("W_dtype", A) in kinds):
                    report("dtype-warning", inp, ws, "dtype conversion warning missing or spurious")
                if x["msk"] == "no":
                    if bool(x["nonfinite"]) != (("W_nonfinite", A) in kinds):
                        report("nonfinite-warning", inp, ws, "NaN/inf in input must produce a warning (and only then)")
                    if (rc and x["oor"]) != (("W_range", A) in kinds):
                        report("range-warning", inp, ws, "out-of-range input must produce a warning when a range is configured (and only then)")
                else:
                    want = "W_masked_invalid" if x["msk"] == "invalid" else "W_masked_valid"
                    if (want, A) not in kinds:
                        report("masked-warning", inp, ws, "masked arrays must be converted with a warning")
            # masked-invalid cells of cm_future (Debiaser) / obs (DeltaChange) arrive as NaN
            src = ds[2] if kind == "Debiaser" else ds[0]
            if src["msk"] == "invalid" and not np.any(np.isnan(out)):
                report("masked-not-nan", inp, None, "masked cells must reach the debiaser as NaN")
    # output warnings in serial AND parallel execution (real debiasers; the probe class cannot be pickled): a missing value in
    # the input reaches the output, and a value outside the variable's range is produced
    import ibicus.debias as D
    for name in ["LinearScaling", "DeltaChange"]:
        for par in (False, True):
            with warnings.catch_warnings():
                warnings.simplefilter("ignore")
                d = getattr(D, name).from_variable("tas")
            mk3 = lambda n, s_: (280 + s_ + np.sin(np.arange(n) / 58.0) * 8).reshape(n, 1, 1) + np.zeros((1, 2, 1))
            o, h, f = mk3(60, 0.0), mk3(60, 1.0), mk3(60, 2.0)
            (o if name == "DeltaChange" else f)[5, 0, 0] = np.nan          # propagates to the output
            (o if name == "DeltaChange" else f)[7, 1, 0] = 1000.0            # far outside the range of tas (K)
            with warnings.catch_warnings(record=True) as w_:
                warnings.simplefilter("always")
                try:
                    d.apply(o, h, f, progressbar=False, parallel=par, nr_processes=2); got = "ok"
                except Exception as e:
                    got = "other:" + type(e).__name__
            kinds_ = {classify(str(x.message)) for x in w_}
            res.case(("output-warnings", name, par))
            if got != "ok" or "W_out_nonfinite" not in kinds_ or "W_out_range" not in kinds_:
                report("output-warning-missing:%s:%s" % (name, "parallel" if par else "serial"), dict(kind="output", debiaser=name, parallel=par), [got, sorted(k for k in kinds_ if k)],
                       "NaN and out-of-range values in the OUTPUT must produce warnings, in serial and in parallel execution")
    # time arrays that do not match the series lengths (window mode), all real debiasers
    import ibicus.debias as D
    for name in ["LinearScaling", "DeltaChange", "QuantileMapping", "ScaledDistributionMapping", "CDFt", "ECDFM", "QuantileDeltaMapping", "ISIMIP"]:
        cls = getattr(D, name)
        with warnings.catch_warnings():
            warnings.simplefilter("ignore")
            d = cls.from_variable("tas", running_window_mode=True)
        nO, nH, nF = 400, 380, 420
        mk = lambda n, s: (280 + s + np.sin(np.arange(n) / 58.0) * 8 + (np.arange(n) * 7919 % 13) / 5.0).reshape(n, 1, 1)
        t = lambda n: create_array_of_consecutive_dates(n)
        for pos, omitted in [(p_, o_) for p_ in range(3) for o_ in (None, (p_ + 1) % 3, (p_ + 2) % 3)]:
            lens = [nO, nH, nF]; lens[pos] -= 1 + pos
            kw = dict(time_obs=t(lens[0]), time_cm_hist=t(lens[1]), time_cm_future=t(lens[2]))
            if omitted is not None:       # one of the OTHER time arrays left out (it is then inferred): the given one is still checked
                kw[["time_obs", "time_cm_hist", "time_cm_future"][omitted]] = None
            with warnings.catch_warnings():
                warnings.simplefilter("ignore")
                try:
                    d.apply(mk(nO, 0), mk(nH, 1), mk(nF, 2), progressbar=False, **kw); got = "ok"
                except ValueError: got = "E_Value"
                except Exception as e: got = "other:" + type(e).__name__
            res.case(("time-mismatch", name, pos, omitted))
            if got != "E_Value":
                report("time-mismatch:" + name, dict(kind="time", debiaser=name, position=pos, omitted_time_array=omitted), got, "time arrays not matching the series lengths must raise ValueError")
        # differing time lengths are accepted
        kw = dict(time_obs=t(nO), time_cm_hist=t(nH), time_cm_future=t(nF))
        with warnings.catch_warnings():
            warnings.simplefilter("ignore")
            np.random.seed(1)
            try:
                out = d.apply(mk(nO, 0), mk(nH, 1), mk(nF, 2), progressbar=False, **kw)
                got = "ok" if out.shape == ((nO, 1, 1) if name == "DeltaChange" else (nF, 1, 1)) else "shape"
            except Exception as e: got = "exc:" + type(e).__name__ + ":" + str(e)[:100]
        res.case(("time-lengths", name))
        if got != "ok":
            report("time-lengths:" + name, dict(kind="lengths", debiaser=name), got, "series of different time lengths must be accepted")

def replay(w):
    logging.getLogger("ibicus").setLevel(logging.CRITICAL)
    inp = w["input"]
    if inp.get("kind") != "contract":
        return True, "replay of %s: rerun ./check C14" % inp.get("kind")
    ds = inp["descs"]
    out_res, ws, out, ncalls = run_impl(ds, inp["same_spatial"], inp["range_configured"], inp["apply"])
    any_non_nd = any(x["nd"] is not True for x in ds)
    bad = (any_non_nd != (out_res == "E_Type")) or (out_res in ("E_Type", "E_Value") and ncalls > 0)
    if not any_non_nd:
        bad_val = any(x["dt"] == "unconv" for x in ds) or any(x["ndim"] != 3 for x in ds) or not inp["same_spatial"]
        bad = bad or (bad_val != (out_res == "E_Value"))
    return bool(bad), dict(outcome=out_res, warnings=ws, calls=ncalls)
