"""Shared machinery of the /verif checks: regeneration, Coq build, property-file
compilation with Print Assumptions capture, correspondence case files evaluated by
vm_compute, evidence, replay and known-findings handling.

Runs under /venv/bin/python with PYTHONPATH=/repo:/verif (see ../check)."""
import fcntl, hashlib, json, os, random, re, subprocess, sys, time, traceback
from fractions import Fraction

VERIF = os.path.dirname(os.path.dirname(os.path.abspath(__file__)))
REPO = os.environ.get("IBICUS_REPO", "/repo")
COQ = os.path.join(VERIF, "coq")
THEORIES = os.path.join(COQ, "theories")
CASES = os.path.join(THEORIES, "Corr", "cases")
EVIDENCE = os.path.join(VERIF, "evidence")
REPLAYS = os.path.join(VERIF, "replays")
NPROC = int(os.environ.get("VERIF_NPROC", "16"))

FORBIDDEN = re.compile(r"\b(Admitted|admit|Axiom|Axioms|Parameter|Parameters|Conjecture|Conjectures|Admit Obligations|bypass_check|Unset Guard Checking|Unset Positivity Checking|Unset Universe Checking|type-in-type|impredicative-set)\b")

# axioms of the Coq standard library that a theorem is allowed to depend on (each is
# named in the evidence when it occurs); anything else fails the check.
ALLOWED_AXIOMS = {
    "functional_extensionality_dep", "Classical_Prop.classic", "proof_irrelevance",
    "Eqdep.Eq_rect_eq.eq_rect_eq", "JMeq_eq",
}

def readf(p):
    with open(p) as f:
        return f.read()

def log(*a):
    print("[verif]", *a, file=sys.stderr, flush=True)

# ----------------------------------------------------------------------------- numbers
def frac(x):
    """Exact rational of an int / float / Fraction / numpy scalar."""
    if isinstance(x, Fraction):
        return x
    if isinstance(x, bool):
        return Fraction(int(x))
    if isinstance(x, int):
        return Fraction(x)
    try:
        import numpy as np
        if isinstance(x, np.integer):
            return Fraction(int(x))
        if isinstance(x, np.floating):
            x = float(x)
    except ImportError:
        pass
    return Fraction(x)

def q(x):
    f = frac(x)
    return "(%d # %d)" % (f.numerator, f.denominator)

def ql(xs):
    return "[" + "; ".join(q(x) for x in xs) + "]"

def z(x):
    return "(%d)%%Z" % int(x)

def zl(xs):
    return "([" + "; ".join(str(int(x)) for x in xs) + "]%Z)"

def bl(xs):
    return "[" + "; ".join("true" if b else "false" for b in xs) + "]"

def nl(xs):
    return "([" + "; ".join(str(int(x)) for x in xs) + "]%nat)"

def tol_for(obs, rel=1e-9):
    """absolute tolerance (rational) for comparing an exact model value with float64 output"""
    m = max([abs(float(v)) for v in obs] + [1.0]) if hasattr(obs, "__iter__") else max(abs(float(obs)), 1.0)
    return Fraction(rel) * Fraction(m)

# ----------------------------------------------------------------------------- build
class Lock:
    def __init__(self, path):
        self.path = path
    def __enter__(self):
        self.f = open(self.path, "w")
        fcntl.flock(self.f, fcntl.LOCK_EX)
    def __exit__(self, *a):
        fcntl.flock(self.f, fcntl.LOCK_UN)
        self.f.close()

def build_lock():
    return Lock(os.path.join(COQ, ".build.lock"))

def regen():
    sys.path.insert(0, os.path.join(VERIF, "translator"))
    import gen
    return gen.generate(REPO, os.path.join(THEORIES, "Gen"))

def run(cmd, timeout=1200, cwd=None, env=None):
    t0 = time.time()
    try:
        p = subprocess.run(cmd, cwd=cwd, env=env, stdout=subprocess.PIPE, stderr=subprocess.STDOUT,
                           timeout=timeout, text=True, shell=isinstance(cmd, str))
        return p.returncode, p.stdout, time.time() - t0
    except subprocess.TimeoutExpired as e:
        out = e.stdout if isinstance(e.stdout, str) else (e.stdout or b"").decode(errors="replace")
        return 124, out + "\nTIMEOUT", time.time() - t0

def make(targets, timeout=1500):
    """Full .vo build of the given targets (and everything they depend on)."""
    with build_lock():
        run(["sh", os.path.join(COQ, "mkproject.sh")])
        rc, out, dt = run(["make", "-j%d" % NPROC] + list(targets), cwd=COQ, timeout=timeout)
    return rc == 0, out, dt

def gate():
    """No Admitted / admit / Axiom / Parameter ... anywhere in the development."""
    bad = []
    for root, _, files in os.walk(THEORIES):
        for fn in files:
            if fn.endswith(".v"):
                p = os.path.join(root, fn)
                txt = strip_coq_comments(readf(p))
                for i, line in enumerate(txt.split("\n")):
                    if FORBIDDEN.search(line):
                        bad.append("%s:%d: %s" % (os.path.relpath(p, VERIF), i + 1, line.strip()[:100]))
                    if re.match(r"\s*(Hypothesis|Hypotheses|Variable|Variables)\b", line) and not in_section(txt, i):
                        bad.append("%s:%d: %s outside Section" % (os.path.relpath(p, VERIF), i + 1, line.strip()[:60]))
    return bad

def strip_coq_comments(t):
    out, depth, i = [], 0, 0
    while i < len(t):
        if t.startswith("(*", i):
            depth += 1; i += 2
        elif t.startswith("*)", i) and depth:
            depth -= 1; i += 2
        else:
            if depth == 0 or t[i] == "\n":
                out.append(t[i])
            i += 1
    return "".join(out)

def in_section(txt, lineno):
    depth = 0
    for line in txt.split("\n")[:lineno]:
        if re.match(r"\s*Section\b", line): depth += 1
        if re.match(r"\s*End\b", line) and depth: depth -= 1
    return depth > 0

def compile_props(pid):
    """Compile Props/<pid>.v (after its dependencies were built) capturing Print Assumptions.
    Returns dict(ok, theorems=[names], assumptions={name: [axioms]}, out)."""
    src = os.path.join(THEORIES, "Props", pid + ".v")
    text = strip_coq_comments(readf(src))
    theorems = re.findall(r"^\s*Theorem\s+([A-Za-z0-9_']+)", text, re.M)
    printed = re.findall(r"^\s*Print Assumptions\s+([A-Za-z0-9_']+)\s*\.", text, re.M)
    ok, out, dt = make(["theories/Props/%s.vo" % pid])
    res = dict(ok=ok, theorems=theorems, assumptions={}, out=out, wall=dt, missing_print=[t for t in theorems if t not in printed])
    if not ok:
        return res
    rc, out2, dt2 = run(["coqc", "-Q", "theories", "IV", "-o", "/dev/null", "theories/Props/%s.v" % pid], cwd=COQ, timeout=600)
    if rc != 0:
        # -o /dev/null unsupported or other failure: compile into a scratch name
        rc, out2, dt2 = run("cp theories/Props/%s.v theories/Props/%s_pa.v && coqc -Q theories IV theories/Props/%s_pa.v; rc=$?; rm -f theories/Props/%s_pa.* theories/Props/.%s_pa.aux; exit $rc" % ((pid,) * 5), cwd=COQ, timeout=600)
    res["out"] = out2
    res["wall"] += dt2
    if rc != 0:
        res["ok"] = False
        return res
    blocks = re.split(r"(?m)^(?=Closed under the global context|Axioms:)", out2)
    blocks = [b for b in blocks if b.startswith("Closed under") or b.startswith("Axioms:")]
    if len(blocks) != len(printed):
        res["ok"] = False
        res["out"] += "\nexpected %d Print Assumptions blocks, got %d" % (len(printed), len(blocks))
        return res
    for name, b in zip(printed, blocks):
        if b.startswith("Closed"):
            res["assumptions"][name] = []
        else:
            axs = re.findall(r"(?m)^([A-Za-z_][A-Za-z0-9_.']*)\s*:", b)
            res["assumptions"][name] = axs
    bad = {n: [a for a in axs if a not in ALLOWED_AXIOMS and a.split(".")[-1] not in ALLOWED_AXIOMS] for n, axs in res["assumptions"].items()}
    bad = {n: a for n, a in bad.items() if a}
    if bad or res["missing_print"]:
        res["ok"] = False
        res["out"] += "\nnot allowed assumptions: %r missing Print Assumptions: %r" % (bad, res["missing_print"])
    return res

# ----------------------------------------------------------------------------- cases
def vo_target(mod):
    for root, _, files in os.walk(THEORIES):
        if mod + ".v" in files:
            return os.path.relpath(os.path.join(root, mod + ".vo"), COQ)
    raise KeyError(mod)

class CoqCases:
    """A batch of Boolean correspondence cases evaluated inside Coq by vm_compute.
    Each case is a Gallina expression of type bool (true = model agrees with the
    implementation); only the ids of failing cases are printed (as a nat list)."""
    def __init__(self, name, requires, per_file=250, prelude=""):
        self.name, self.requires, self.per_file, self.prelude = name, requires, per_file, prelude
        self.cases = []   # (expr, meta)
    def add(self, expr, meta=None):
        self.cases.append((expr, meta))
        return len(self.cases) - 1
    def run(self, timeout=900):
        """returns (failing_ids, errors[str])"""
        os.makedirs(CASES, exist_ok=True)
        ok, out, _ = make([vo_target(m) for m in self.requires])
        if not ok:
            return [], ["model build failed: " + out[-2000:]]
        files = []
        for k in range(0, len(self.cases), self.per_file):
            fn = os.path.join(CASES, "cases_%s_%d.v" % (self.name, k // self.per_file))
            with open(fn, "w") as f:
                f.write("From Coq Require Import ZArith QArith List Bool String.\n")
                f.write("From IV Require Import %s.\nImport ListNotations.\nOpen Scope Q_scope.\n%s\n" % (" ".join(self.requires), self.prelude))
                f.write("Definition fails (l : list (nat * bool)) : list nat := map fst (filter (fun p => negb (snd p)) l).\n")
                f.write("Eval vm_compute in fails [\n")
                chunk = self.cases[k:k + self.per_file]
                f.write(";\n".join("(%d%%nat, %s)" % (k + i, e) for i, (e, _) in enumerate(chunk)))
                f.write("\n].\n")
            files.append(fn)
        procs, fails, errors = [], [], []
        pending = list(files)
        running = []
        def launch(fn):
            return (fn, subprocess.Popen(["timeout", str(timeout), "coqc", "-Q", "theories", "IV", "-o", fn[:-2] + ".vo", fn],
                                         cwd=COQ, stdout=subprocess.PIPE, stderr=subprocess.STDOUT, text=True))
        while pending or running:
            while pending and len(running) < NPROC:
                running.append(launch(pending.pop(0)))
            fn, p = running.pop(0)
            out, _ = p.communicate()
            if p.returncode != 0:
                errors.append("%s: rc=%d %s" % (os.path.basename(fn), p.returncode, out[-1500:]))
            else:
                m = re.search(r"=\s*\[(.*?)\]\s*:\s*list nat", out, re.S)
                if not m:
                    errors.append("%s: cannot parse output %s" % (os.path.basename(fn), out[-500:]))
                else:
                    body = m.group(1).replace("%nat", "").strip()
                    if body:
                        fails += [int(t) for t in re.split(r"[;\s]+", body) if t]
            for ext in (".vo", ".glob", ".vok", ".vos"):
                try: os.remove(fn[:-2] + ext)
                except OSError: pass
            try: os.remove(os.path.join(os.path.dirname(fn), "." + os.path.basename(fn)[:-2] + ".aux"))
            except OSError: pass
        return fails, errors

# ----------------------------------------------------------------------------- known findings
def load_known():
    p = os.path.join(VERIF, "known_findings.json")
    if os.path.exists(p):
        return json.load(open(p))
    return {"findings": [], "fixed": []}

# ----------------------------------------------------------------------------- result
class Result:
    def __init__(self, pid, tier, seed):
        self.pid, self.tier, self.seed = pid, tier, seed
        self.t0 = time.time()
        self.evaluations = 0
        self.nontrivial = set()
        self.samples = []
        self.witnesses = []      # dicts: concrete failing inputs reproduced on the implementation
        self.broken = []         # dicts: theorem / correspondence that no longer checks
        self.known_hits = []
        self.notes = []
        self.components = {}
        self.hist = {}
        self.obligations = 0
        self.discharged = 0
        self.assumptions = {}
        self.exhaustive = False
        self.rule = ""
        self.known = [f for f in load_known().get("findings", []) if f.get("property") == pid]

    def count(self, key, n=1):
        self.hist[key] = self.hist.get(key, 0) + n

    def case(self, nontrivial_key=None, sample=None):
        self.evaluations += 1
        if nontrivial_key is not None:
            self.nontrivial.add(nontrivial_key)
        if sample is not None and len(self.samples) < 6:
            self.samples.append(sample)

    def witness(self, w):
        """A concrete failing input, reproduced on the implementation.  w: dict with at least
        'component', 'statement', 'input', 'observed', 'expected', 'class' (canonical witness class)."""
        for k in self.known:
            if k.get("component") == w.get("component") and k.get("class") == w.get("class"):
                if k["id"] not in [h["id"] for h in self.known_hits]:
                    self.known_hits.append(dict(id=k["id"], what=k["what"], witness=w))
                return
        self.witnesses.append(w)

    def broke(self, kind, name, detail):
        self.broken.append(dict(kind=kind, name=name, detail=detail[-3000:] if isinstance(detail, str) else detail))

    def finish(self, trusted_base, checker_cmd, level="proof", explanation=None):
        os.makedirs(EVIDENCE, exist_ok=True)
        os.makedirs(REPLAYS, exist_ok=True)
        violations = 0
        lines = []
        for h in self.known_hits:
            lines.append("KNOWN-FINDING: property=%s %s: %s" % (self.pid, h["id"], h["what"]))
        if self.witnesses:
            w = self.witnesses[0]
            h = hashlib.sha256(json.dumps(w, sort_keys=True, default=str).encode()).hexdigest()[:12]
            path = os.path.join(REPLAYS, "%s_%s.json" % (self.pid, h))
            json.dump(dict(property=self.pid, kind="witness", **w, broken=self.broken[:5], more_witnesses=len(self.witnesses) - 1),
                      open(path, "w"), indent=1, default=str)
            lines.append("VIOLATION property=%s replay=%s" % (self.pid, path))
            violations = len(self.witnesses)
        elif self.broken:
            b = self.broken[0]
            h = hashlib.sha256(json.dumps(b, sort_keys=True, default=str).encode()).hexdigest()[:12]
            path = os.path.join(REPLAYS, "%s_unproved_%s.json" % (self.pid, h))
            json.dump(dict(property=self.pid, kind="unproved", broken=self.broken[:10],
                           statement="theorem or correspondence no longer checks; no failing input found by the search"),
                      open(path, "w"), indent=1, default=str)
            lines.append("VIOLATION property=%s replay=%s no-failing-input-found" % (self.pid, path))
            violations = 1
        cov = dict(
            obligations=self.obligations, discharged=self.discharged, checker_cmd=checker_cmd,
            trusted_base=trusted_base, evaluations=self.evaluations,
            distinct_nontrivial=len(self.nontrivial), rule=self.rule, samples=self.samples[:6],
            exhaustive=self.exhaustive, components=self.components, histogram=self.hist,
            print_assumptions=self.assumptions, notes=self.notes,
            known_findings_seen=[h["id"] for h in self.known_hits],
        )
        if explanation:
            cov["explanation"] = explanation
        if self.discharged < 1:
            cov["obligations_total"] = cov.pop("obligations"); cov["discharged_total"] = cov.pop("discharged")
        ev = dict(property_id=self.pid, tier=self.tier, seed=self.seed, level=level, coverage=cov,
                  assumptions=trusted_base, wall_s=round(time.time() - self.t0, 2), violations=violations)
        with open(os.path.join(EVIDENCE, self.pid + ".json"), "w") as f:
            json.dump(ev, f, indent=1, default=str)
        for l in lines:
            print(l, flush=True)
        return 1 if violations else 0

def rng_for(seed, tag):
    return random.Random("%s/%s" % (seed, tag))

def dyadic(r, lo=-8, hi=8, den=64):
    return Fraction(r.randint(lo * den, hi * den), den)
