"""./check entry point: python -m harness.main <Cnn> [--tier quick|thorough] [--replay path]"""
import argparse, importlib, json, os, sys, time, traceback
from . import common as C

TRUSTED = [
    "Coq 8.16.1 kernel and coqc; vm_compute (no native_compute); no extraction",
    "the development declares no axioms (grep gate) and allows only Coq-stdlib axioms reported by Print Assumptions (listed under print_assumptions)",
    "translator /verif/translator (Python ast -> Gallina, fail-closed) and its spec table",
    "NumPy prelude Base/NP.v, Base/QL.v as a model of NumPy 2.5.3 (validated by correspondence)",
    "harness generators/comparer; exact-arithmetic (Q) statements: float64 rounding is covered only by the toleranced correspondence",
]

def main():
    ap = argparse.ArgumentParser()
    ap.add_argument("pid")
    ap.add_argument("--tier", default=os.environ.get("VERIF_TIER", "quick"))
    ap.add_argument("--replay", default=None)
    a = ap.parse_args()
    seed = int(os.environ.get("VERIF_SEED", "0"))
    pid = a.pid.upper()
    mod = importlib.import_module("harness." + pid.lower())
    if a.replay:
        w = json.load(open(a.replay))
        if w.get("kind") != "witness":
            print("replay file names an unproved theorem/correspondence, nothing to execute:", json.dumps(w.get("broken", [])[:1])[:600])
            sys.exit(1)
        still, detail = mod.replay(w)
        print(("STILL-FAILS " if still else "PASSES-NOW ") + str(detail)[:2000])
        sys.exit(1 if still else 0)
    res = C.Result(pid, a.tier, seed)
    try:
        man = C.regen()
        for gf in getattr(mod, "GEN_FILES", []):
            e = man["files"].get(gf, {})
            for fn, why in e.get("refused", {}).items():
                if fn in getattr(mod, "GEN_OPTIONAL", ()):
                    continue
                res.broke("translator-refusal", "%s.%s" % (gf, fn), why)
            res.components[gf] = dict(tie="translator (regenerated this run)", functions=e.get("functions", {}))
        bad = C.gate()
        if bad:
            res.broke("gate", "forbidden declaration", "\n".join(bad))
        pr = C.compile_props(pid)
        res.obligations = len(pr["theorems"])
        res.assumptions = pr["assumptions"]
        if pr["ok"]:
            res.discharged = len(pr["theorems"])
        else:
            res.discharged = 0
            res.broke("proof", "Props/%s.v" % pid, pr["out"])
        res.components["proof_build_s"] = round(pr["wall"], 1)
        for phase, run in (("correspondence", lambda: mod.correspondence(res, a.tier, seed)), ("search", lambda: mod.search(res, a.tier, seed, deep=bool(res.broken)))):
            try:
                run()
            except Exception as e:
                tb = traceback.format_exc()
                if C.REPO + "/ibicus" in tb:
                    # the implementation itself raised on an input the check considers valid: a concrete failure
                    res.witness(dict(component="ibicus (raised during the %s phase)" % phase,
                                     statement="the implementation raised on an input that the check generates as valid; re-running the check with this seed and tier reproduces it",
                                     input=dict(seed=seed, tier=a.tier, phase=phase), observed=tb[-1800:], expected=pid, **{"class": "implementation-raised:" + type(e).__name__}))
                else:
                    res.broke("harness-error", "exception in " + phase, tb)
    except Exception:
        res.broke("harness-error", "exception", traceback.format_exc())
    checker = "make theories/Props/%s.vo && coqc -Q theories IV theories/Props/%s.v (cwd /verif/coq; full .vo build of all dependencies incl. regenerated Gen/*.v)" % (pid, pid)
    rc = res.finish(TRUSTED + getattr(mod, "TRUSTED", []), checker)
    sys.exit(rc)

if __name__ == "__main__":
    main()
