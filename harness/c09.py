"""C09 — quantile-mapping transfer functions are monotone (rank preserving).
Tie: translator (Gen/GenScalars.v) + model Model/Ecdf.v; correspondence K5 and K4; search: output ordered by the
corresponding input for LinearScaling, QuantileMapping (parametric / non-parametric), CDFt (all 3 x 9 method pairs)
and ISIMIP step 6 (bounded and unbounded variables), and the randomisations (CDFt SSR, ISIMIP step 4) never reorder."""
import warnings, logging
from fractions import Fraction
import numpy as np
from . import common as C
from . import debiasers, realruns as R

GEN_FILES = ["GenScalars", "GenUtils"]
TRUSTED = ["C09: ISIMIP step 4 is proved on the hand model Model/IsimipStep4.v (tied by correspondence K16, uniform draws recorded); ISIMIP step 5/6 end to end and the CDFt SSR randomisation are searched on the implementation (through the public step API), not proved",
           "C09: SciPy distributions have non-decreasing cdf and ppf (assumption about SciPy)"]
ECDF = ["step_function", "linear_interpolation", "kernel_density"]
IECDF = ["inverted_cdf", "averaged_inverted_cdf", "closest_observation", "interpolated_inverted_cdf", "hazen", "weibull", "linear", "median_unbiased", "normal_unbiased"]

def correspondence(res, tier, seed):
    debiasers.k5(res, tier, seed, tag="k5c09")
    k16(res, tier, seed, tag="k16c09")
    res.rule = ("K5 as for C03; search: series of 40-400 values with ties, zeros and values outside the calibration range; all ecdf x iecdf "
                "pairs for CDFt; ISIMIP step 6 for all ten variable settings; distinct/non-trivial = distinct (method, configuration) classes")

def nondecreasing_in_input(x, y, tol):
    o = np.argsort(x, kind="stable")
    xs, ys = x[o], y[o]
    # strictly smaller input => not larger output
    last_max = -np.inf; i = 0
    while i < len(xs):
        j = i
        while j < len(xs) and xs[j] == xs[i]: j += 1
        if ys[i:j].min() < last_max - tol: return False
        last_max = max(last_max, ys[i:j].max()); i = j
    return True

def data(rs, n, kind):
    if kind == "ties":
        return np.round(rs.normal(0, 2, n) * 2) / 2 + 5
    if kind == "zeros":
        return np.where(rs.rand(n) < 0.4, 0.0, rs.gamma(1.0, 2.0, n))
    return rs.normal(5, 2, n)

def search(res, tier, seed, deep=False):
    logging.getLogger("ibicus").setLevel(logging.CRITICAL)
    import ibicus.debias as D, scipy.stats
    r = C.rng_for(seed, "c09-search")
    seen = set()
    def report(cls_, inp, obs, stmt):
        if cls_ in seen: return
        seen.add(cls_)
        res.witness(dict(component="transfer function within one window", statement=stmt, input=inp, observed=obs, expected="C09", **{"class": cls_}))
    rounds = 3 if tier == "quick" else 30
    with warnings.catch_warnings():
        warnings.simplefilter("ignore")
        for rnd in range(rounds):
            rs = np.random.RandomState(r.randint(0, 10 ** 6))
            kind = ["plain", "ties", "zeros"][rnd % 3]
            no, nh, nf = r.randint(40, 200), r.randint(40, 200), r.randint(40, 400)
            o, h = data(rs, no, kind), data(rs, nh, kind) * 1.3 + 1
            f = np.concatenate([data(rs, nf, kind) * 1.5, [h.min() - 7, h.max() + 9, o.min() - 3]])
            cfgs = [("LinearScaling-add", D.LinearScaling(delta_type="additive")),
                    ("LinearScaling-mul", D.LinearScaling(delta_type="multiplicative")),
                    ("QM-param", D.QuantileMapping(distribution=scipy.stats.norm, mapping_type="parametric", detrending="no_detrending")),
                    ("QM-param-additive", D.QuantileMapping(distribution=scipy.stats.norm, mapping_type="parametric", detrending="additive")),
                    ("QM-nonparam", D.QuantileMapping(mapping_type="nonparametric", detrending="no_detrending")),
                    ("QM-nonparam-additive", D.QuantileMapping(mapping_type="nonparametric", detrending="additive"))]
            for nm, d in cfgs:
                if kind == "zeros" and nm in ("LinearScaling-mul",) and abs(h.mean()) < 1e-12: continue
                out = d.apply_on_window(o, h, f)
                res.case(("mono", nm, kind))
                if not nondecreasing_in_input(f, out, 1e-9 * (1 + np.max(np.abs(out)))):
                    report("not-monotone:" + nm, dict(config=nm, data=kind, seed=seed, round=rnd), None, "a smaller future value received a larger debiased value")
            pairs = [(em, im) for em in ECDF for im in IECDF]
            if tier == "quick": pairs = [pairs[(rnd * 9 + k * 4) % 27] for k in range(9)]
            for em, im in pairs:
                for ds in ("additive", "no_shift"):
                    d = D.CDFt(delta_shift=ds, ecdf_method=em, iecdf_method=im)
                    out = d._apply_CDFt_mapping(o, h, f)
                    res.case(("cdft", em, im, ds))
                    if not nondecreasing_in_input(f, out, 1e-9 * (1 + np.max(np.abs(out)))):
                        report("not-monotone:CDFt:%s/%s" % (em, im), dict(ecdf=em, iecdf=im, delta_shift=ds, data=kind, seed=seed, round=rnd), None, "CDFt transfer function not monotone")
            # CDFt SSR randomisation never reorders
            z = data(rs, 200, "zeros") * 1e-4
            np.random.seed(rnd)
            o2, h2, f2, th = D.CDFt._apply_SSR_steps_before_adjustment(z.copy(), z.copy() * 1.2, z.copy() * 0.8)
            res.case(("ssr",))
            for a, b in ((z, o2), (z * 1.2, h2), (z * 0.8, f2)):
                if not nondecreasing_in_input(a, b, 0.0):
                    report("ssr-reorders", dict(seed=seed, round=rnd), None, "SSR randomisation of zeros reordered values")
            # ISIMIP: step 4 randomisation and step 6 for every variable's settings
            from ibicus.debias import ISIMIP
            ISIMIP_VARS = [("hurs", 0, 100, {}), ("pr", 0, 5e-4, {}), ("prsnratio", 0, 1, {}), ("psl", 9e4, 1.1e5, {}), ("rlds", 100, 500, {}), ("rsds", 0, 1, {}),
                           ("sfcwind", 0, 20, {}), ("tas", 250, 310, {}), ("tasrange", 0, 25, {}), ("tasskew", 0, 1, {}),
                           # non-default but valid settings: threshold on the bound itself (calm days stored as exact zeros), the other
                           # quantile-mapping branch
                           ("sfcwind", 0, 20, dict(lower_threshold=0.0)), ("tasrange", 0, 25, dict(lower_threshold=0.0)),
                           # (event_likelihood_adjustment=True is left out: Lange 2019 eq. 10-14 add a clipped difference of log-odds,
                           #  L_obs_hist + clip(L_cm_future - L_cm_hist), which is not monotone in the rank by construction of the method)
                           ("sfcwind", 0, 20, dict(nonparametric_qm=True)), ("hurs", 0, 100, dict(nonparametric_qm=False))]
            # (threshold on the bound: bell-shaped data with calm days as exact zeros, several samples: whether the
            #  distribution fit matters there depends on the sample)
            # (and: observations without any value between the thresholds — a completely dry record, permanently saturated
            #  humidity — while the model has some: step 6 then leaves the in-threshold values unadjusted, in place)
            ALL_AT_BOUND = [("pr", 0, 5e-4, {}), ("hurs", 0, 100, dict(bias_correct_frequencies_of_values_beyond_thresholds=True)), ("prsnratio", 0, 1, {}), ("sfcwind", 0, 20, {})]
            for var, lo, hi, over, bell in [v + (False,) for v in ISIMIP_VARS] + [v + (True,) for v in ISIMIP_VARS if v[3].get("lower_threshold") == 0.0] * 6 \
                    + [v + ("all-at-bound",) for v in ALL_AT_BOUND] * 2:
                d = ISIMIP.from_variable(var, **over)
                big = bool(over) and r.random() < 0.5          # samples of a few thousand values now and then
                n1, n2, n3 = (r.randint(1500, 2500), r.randint(1500, 2500), r.randint(1500, 2500)) if big else (r.randint(60, 150), r.randint(60, 150), r.randint(60, 150))
                def mk(n, sh):
                    x = lo + (hi - lo) * np.clip(rs.beta(2, 3, n) + sh, 0, 1)
                    if d.has_lower_threshold:
                        x[rs.rand(n) < 0.25] = lo
                        k = rs.rand(n) < 0.12       # values strictly between the bound and its threshold (drizzle)
                        x[k] = d.lower_bound + rs.rand(k.sum()) * (d.lower_threshold - d.lower_bound)
                    if d.has_upper_threshold:
                        x[rs.rand(n) < 0.15] = hi
                        k = rs.rand(n) < 0.08
                        x[k] = d.upper_bound - rs.rand(k.sum()) * (d.upper_bound - d.upper_threshold)
                    return x
                oh, ch, cf = mk(n1, 0), mk(n2, 0.1), mk(n3, 0.15)
                if bell == "all-at-bound":
                    oh = np.full(n1, float(d.upper_bound if var == "hurs" else d.lower_bound))
                    ch, cf = mk(n2, 0.1), mk(n3, 0.15)
                elif bell:
                    sc = hi / 20.0
                    oh, ch, cf = (np.maximum(rs.normal(mu * sc, sd * sc, m), 0.0) for m, mu, sd in ((n1, 3, 2.5), (n2, 5, 3), (n3, 5.5, 3)))
                np.random.seed(rnd)
                a, b, c = d.step4(oh.copy(), ch.copy(), cf.copy())
                res.case(("isimip-step4", var, str(over)))
                if not (nondecreasing_in_input(oh, a, 0.0) and nondecreasing_in_input(ch, b, 0.0) and nondecreasing_in_input(cf, c, 0.0)):
                    report("step4-reorders:" + var, dict(variable=var, options=str(over), seed=seed, round=rnd), None, "ISIMIP step 4 randomisation reordered values")
                try:
                    of = d.step5(a, b, c)
                    out = d.step6(a, of, b, c)
                except Exception as e:
                    report("step6-exception:" + var, dict(variable=var, options=str(over), seed=seed, round=rnd), repr(e)[:200], "ISIMIP step 5/6 raised"); continue
                res.case(("isimip-step6", var, str(over), big, bell))
                if not nondecreasing_in_input(c, out, 1e-9 * (1 + np.max(np.abs(out)))):
                    report("not-monotone:ISIMIP:" + var, dict(variable=var, options=str(over), n=[n1, n2, n3], bell_shaped=bell, seed=seed, round=rnd), None, "ISIMIP step 6 is not rank preserving")

def k16(res, tier, seed, tag="k16"):
    """K16: hand model Model/IsimipStep4.v vs ISIMIP._step4_randomize_values_between_{lower,upper}_threshold_and_bound with the
    uniform draws recorded (np.random.uniform patched to record them); small series (NumPy's argsort is an insertion sort,
    hence stable, below 17 elements: ties among the randomised values are then broken as in the model)."""
    from ibicus.debias import ISIMIP
    from .c17 import Rec
    r = C.rng_for(seed, tag)
    n = 40 if tier == "quick" else 400
    cc = C.CoqCases(tag, ["QL", "NP", "Ecdf", "IsimipStep4", "CorrBase"], per_file=100)
    meta = []
    with warnings.catch_warnings():
        warnings.simplefilter("ignore")
        for i in range(n):
            var = r.choice(["hurs", "pr", "tasskew", "prsnratio"])
            d = ISIMIP.from_variable(var)
            lb, lt = Fraction(d.lower_bound).limit_denominator(10 ** 9), Fraction(d.lower_threshold)
            up = np.isfinite(d.upper_bound)
            ub, ut = (Fraction(d.upper_bound), Fraction(d.upper_threshold)) if up else (None, None)
            k = r.randint(2, 12)
            hi = Fraction(d.upper_bound) if up else 40 * lt + 1
            vals = []
            for _ in range(k):
                c = r.random()
                if c < 0.3: vals.append(lb)
                elif c < 0.45: vals.append(lb + (lt - lb) * Fraction(r.randint(1, 15), 16))
                elif c < 0.6 and up: vals.append(ub if r.random() < 0.6 else ut + (ub - ut) * Fraction(r.randint(1, 15), 16))
                else: vals.append(lt + (hi - lt) * Fraction(r.randint(1, 63), 64))
            which = "upper" if (up and i % 2) else "lower"
            v = np.array([float(x) for x in vals])
            with Rec() as rec:
                np.random.seed(i)
                out = (d._step4_randomize_values_between_upper_threshold_and_bound if which == "upper" else d._step4_randomize_values_between_lower_threshold_and_bound)(v.copy())
            us = [Fraction(float(u)) for u in (rec.us[0] if rec.us else [])]
            fv = [Fraction(float(x)) for x in v]
            if which == "lower":
                call = "(step4_lower %s %s %s %s)" % (C.q(Fraction(float(d.lower_bound))), C.q(Fraction(float(d.lower_threshold))), C.ql(us), C.ql(fv))
                masked = [x for x in fv if x <= Fraction(float(d.lower_threshold))]
            else:
                call = "(step4_upper %s %s %s %s)" % (C.q(Fraction(float(d.upper_threshold))), C.q(Fraction(float(d.upper_bound))), C.ql(us), C.ql(fv))
                masked = [x for x in fv if x >= Fraction(float(d.upper_threshold))]
            tol = "(1#1000000000000)"
            if len(set(masked)) == len(masked):
                e = "close_list %s %s %s" % (call, C.ql(out), tol)
            else:
                # ties among the randomised values: NumPy's argsort breaks them arbitrarily (SIMD quicksort), so which of
                # the tied entries receives which draw is not determined; compared as multisets, untouched entries exactly
                keep = [i_ for i_, x in enumerate(fv) if x not in masked]
                e = "(close_list (qsort %s) (qsort %s) %s && forallb (fun i => close (nth i %s 0) (nth i %s 0) %s) %s)" % (
                    call, C.ql(out), tol, call, C.ql(out), tol, C.nl(keep))
                res.count("k16-ties-compared-as-multisets")
            cc.add(e)
            m = dict(func="ISIMIP._step4_randomize_values (%s)" % which, variable=var, values=[str(x) for x in vals], draws=len(us))
            meta.append(m); res.case(("step4", which, var, len(us) > 1), sample=m if len(res.samples) < 5 else None)
    fails, errors = cc.run()
    res.components["K16 Model/IsimipStep4.v (hand model) vs ISIMIP step 4 randomisation"] = dict(cases=len(cc.cases), disagreements=len(fails), errors=len(errors))
    for e in errors[:3]:
        res.broke("correspondence-error", "K16", e)
    for i in fails[:5]:
        res.broke("correspondence", "K16 " + meta[i]["func"], meta[i])

def replay(w):
    return True, "re-run ./check C09 (inputs are regenerated from the recorded seed)"
