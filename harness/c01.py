"""C01 — bias removal on the reference period.
Tie: translator (Gen/GenScalars.v) + correspondence K5; search: apply_location(obs, cm_hist, cm_hist.copy()) on all
eight real debiasers: residual mean bias zero to rounding for the window-free mean-based / parametric configurations,
a small fraction of the original bias for the empirical-CDF methods and the seasonal-window configurations; spread
reproduced by the distribution-mapping methods; DeltaChange returns obs."""
import numpy as np
from . import common as C
from . import debiasers, realruns as R

GEN_FILES = ["GenScalars", "GenUtils"]
TRUSTED = ["C01: PARTIAL — the quantitative 'small fraction of the original bias' for unequal sample sizes (CDFt, non-parametric QM), overlapping seasonal windows and ISIMIP is a statistical bound searched on the implementation (threshold 5% of the original bias), not a theorem",
           "C01: SciPy's norm.fit returns (mean, std) (assumption about SciPy)"]

def correspondence(res, tier, seed):
    debiasers.k5(res, tier, seed, tag="k5c01")
    debiasers.k21(res, tier, seed, tag="k21c01")      # ISIMIP step 3 (the trend is centred: C01_isimip_trend_centred)
    debiasers.k22(res, tier, seed, tag="k22c01")
    res.rule = ("K5 as for C03; search: eight debiasers x window mode x bias sign/size, additive (tas) and multiplicative (pr: LS/DC) settings, "
                "whole-year spans; distinct/non-trivial = distinct (debiaser, variable, window mode) classes")

EXACT = {("LinearScaling", "none"), ("QuantileMapping", "none"), ("ECDFM", "none"), ("DeltaChange", "none"), ("DeltaChange", "days")}

def search(res, tier, seed, deep=False):
    r = C.rng_for(seed, "c01-search")
    seen = set()
    def report(cls_, inp, obs, stmt):
        if cls_ in seen: return
        seen.add(cls_)
        res.witness(dict(component="apply_location(obs, cm_hist, cm_hist.copy())", statement=stmt, input=inp, observed=obs, expected="C01", **{"class": cls_}))
    rounds = 1 if tier == "quick" else 4
    for rnd in range(rounds):
        for name in R.ALL:
            modes = ["none", "days"] + (["years"] if name in ("CDFt", "QuantileDeltaMapping") else [])
            if tier == "quick": modes = ["none", modes[1 + (rnd + len(name)) % (len(modes) - 1)]]
            for mi, mode in enumerate(modes):
                for var in (("tas", "pr") if name in ("LinearScaling", "DeltaChange") else ("tas",)):
                    d = R.build(name, var, mode, r)
                    rs = np.random.RandomState(r.randint(0, 10 ** 6))
                    ny = r.choice([2, 3]); n = 365 * ny + (1 if ny == 3 else 0)
                    bias = r.choice([-4.0, 2.5, 6.0]); sc = r.choice([0.7, 1.5])
                    # the simulation need not be as long as the observed record (whole years both): 10 years of obs against
                    # 30 of model output is the usual case
                    nH = n if (mi + seed + rnd) % 2 else r.choice([365 * (ny + 1) + 1, 3652])
                    # relative biases of more than a factor of ten in either direction now and then (multiplicative settings)
                    prs = (1.0 + abs(bias) / 4) if (mi + seed + rnd) % 2 == 0 else r.choice([40.0, 0.04])
                    if var == "tas":
                        obs, hist = R.series(rs, n, "tas"), R.series(rs, nH, "tas", bias, sc)
                    else:
                        obs, hist = R.series(rs, n, "pr"), R.series(rs, nH, "pr", scale=prs)
                    tO = R.times(n, "1981-01-01"); tH = R.times(nH, "1981-01-01")
                    if name == "DeltaChange":
                        # the model period need not be the observed one: another start date and length
                        nH = r.choice([n, n + 200, 2 * n]); startH = r.choice(["1981-01-01", "1971-01-01", "1975-04-11"])
                        hist = R.series(rs, nH, var, bias, sc) if var == "tas" else R.series(rs, nH, "pr", scale=prs)
                        tH = R.times(nH, startH)
                    inp = dict(debiaser=name, variable=var, window_mode=mode, bias=bias, scale=sc, pr_scale=(prs if var == "pr" else None), n=n, n_hist=int(hist.size), start_hist=str(tH[0])[:10], seed=seed)
                    try:
                        out = R.run(d, obs, hist, hist.copy(), tO, tH, tH)
                    except Exception as e:
                        report("exception:" + name, inp, repr(e)[:300], "apply_location raised"); continue
                    res.case(("c01", name, var, mode, int(hist.size) != n, var == "pr" and prs in (40.0, 0.04)))
                    orig = hist.mean() - obs.mean()
                    resid = out.mean() - obs.mean()
                    if name == "DeltaChange":
                        if not np.allclose(out, obs, rtol=0, atol=1e-9 * max(1e-300, np.max(np.abs(obs)))):
                            report("dc-not-identity:" + var, inp, float(np.max(np.abs(out - obs))), "DeltaChange with an unchanged model must return the observations")
                        continue
                    frac = abs(resid) / abs(orig)
                    limit = 1e-9 if (name, mode) in EXACT else 0.05
                    if not (frac <= limit):
                        report("residual-bias:%s:%s:%s" % (name, var, "exact" if limit < 1e-3 else "fraction"), inp, dict(residual=float(resid), original=float(orig), fraction=float(frac)),
                               "debiasing the reference period leaves a residual mean bias above the admitted level")
                    if name in ("QuantileMapping", "ECDFM", "ISIMIP") and mode == "none" and var == "tas":
                        if abs(out.std() - obs.std()) > (1e-6 if name != "ISIMIP" else 0.05) * obs.std():
                            report("spread:" + name, inp, [float(out.std()), float(obs.std())], "the calibrated spread is not reproduced")
        # CDFt with the multiplicative delta shift (the default of hurs, rsds, sfcWind, tasskew): relative-humidity-like data
        for mi, mode in enumerate(["none", "days"] if tier != "quick" else [["none", "days"][(seed + rnd) % 2]]):
            rs = np.random.RandomState(r.randint(0, 10 ** 6))
            n = 365 * 3 + 1; nH = n if (mi + seed + rnd) % 2 else 3652
            mkh = lambda m, sh, sc: np.clip(60 + sh + sc * 15 * rs.standard_normal(m) + 10 * np.sin(np.arange(m) * 2 * np.pi / 365.25), 1, 100)
            obs, hist = mkh(n, 0, 1.0), mkh(nH, r.choice([-12, 9]), 1.3)
            d = R.build("CDFt", "hurs", mode, r)
            inp = dict(debiaser="CDFt", variable="hurs", delta_shift=str(d.delta_shift), window_mode=mode, n=n, n_hist=nH, seed=seed)
            try:
                out = R.run(d, obs, hist, hist.copy(), R.times(n, "1981-01-01"), R.times(nH, "1981-01-01"), R.times(nH, "1981-01-01"))
            except Exception as e:
                report("exception:CDFt:hurs", inp, repr(e)[:300], "apply_location raised"); continue
            res.case(("c01", "CDFt", "hurs", mode))
            orig = hist.mean() - obs.mean(); resid = out.mean() - obs.mean()
            if not (abs(resid) <= 0.05 * abs(orig)):
                report("residual-bias:CDFt:hurs:fraction", inp, dict(residual=float(resid), original=float(orig)), "debiasing the reference period leaves a residual mean bias above the admitted level")
        # ISIMIP with detrending active: a significant trend in one of the two calibration series must not
        # leave a mean bias (the trend is removed around the series mean and restored)
        if True:
            rs = np.random.RandomState(r.randint(0, 10 ** 6))
            ny = 10; n = 3652
            trend_in = r.choice(["obs", "cm_hist"]); slope = r.choice([0.06, 0.1]) / 365.25
            bias = r.choice([-2.0, 2.0])
            obs, hist = R.series(rs, n, "tas", 0.0, 0.5), R.series(rs, n, "tas", bias, 0.5)
            ramp = slope * np.arange(n)
            if trend_in == "obs": obs = obs + ramp
            else: hist = hist + ramp
            tO = R.times(n, "1981-01-01")
            for mode in (["none"] if tier == "quick" else ["none", "days"]):
                d = R.build("ISIMIP", "tas", mode, r)
                inp = dict(debiaser="ISIMIP", variable="tas", window_mode=mode, trend_in=trend_in, slope_per_year=slope * 365.25, bias=bias, n=n, seed=seed)
                try:
                    out = R.run(d, obs, hist, hist.copy(), tO, tO, tO)
                except Exception as e:
                    report("exception:ISIMIP-trend", inp, repr(e)[:300], "apply_location raised"); continue
                res.case(("c01-trend", "ISIMIP", mode, trend_in))
                orig = hist.mean() - obs.mean(); resid = out.mean() - obs.mean()
                if not (abs(resid) <= 0.05 * abs(orig)):
                    report("residual-bias:ISIMIP:trend", inp, dict(residual=float(resid), original=float(orig)), "ISIMIP with detrending leaves a residual mean bias on trending data")
        # non-parametric QM with equal sizes reproduces exactly the observed multiset
        import ibicus.debias as D
        rs = np.random.RandomState(r.randint(0, 10 ** 6))
        o, h = rs.normal(0, 1, 300), rs.normal(2, 3, 300)
        out = D.QuantileMapping(mapping_type="nonparametric", detrending="no_detrending").apply_on_window(o, h, h.copy())
        res.case(("qm-nonparam-multiset",))
        if not np.array_equal(np.sort(out), np.sort(o)):
            report("qm-nonparam-multiset", dict(seed=seed), None, "non-parametric QM with equal sample sizes must reproduce exactly the observed values")

def replay(w):
    return True, "re-run ./check C01 (inputs are regenerated from the recorded seed)"
