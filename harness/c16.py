"""C16 — empirical CDF / quantile toolkit obeys the laws of distribution functions.
Tie: hand model Model/Ecdf.v, correspondence K4 (model vs ibicus.utils ecdf/iecdf/quantile maps/
sort_array_like_another_one on generated samples, comparison inside Coq); search: the laws
themselves evaluated on the implementation for all 3 x 9 method pairs."""
import warnings
import numpy as np
from fractions import Fraction
from . import common as C

GEN_FILES = []
TRUSTED = ["C16: np.histogram(bins='auto') edge/count rule is not modelled (NumPy's actual edges and counts are passed to the model)",
           "C16: at an evaluation point equal to a tied sample value ecdf 'linear_interpolation' is float-unstable (any value in the tie's p-interval is accepted; excluded from correspondence, covered by the law search)"]

ECDF = ["step_function", "linear_interpolation", "kernel_density"]
IECDF = ["inverted_cdf", "averaged_inverted_cdf", "closest_observation", "interpolated_inverted_cdf",
         "hazen", "weibull", "linear", "median_unbiased", "normal_unbiased"]
DISCRETE = {"inverted_cdf": lambda n, p: (n - 1) * p, "averaged_inverted_cdf": lambda n, p: n * p - 1,
            "closest_observation": lambda n, p: n * p - Fraction(3, 2)}

def mu():
    import ibicus.utils._math_utils as m
    return m

def gen_sample(r, n=None, ties=None, mag=None):
    n = n or r.choice([2, 2, 3, 4, 5, 7, 10, 16, 25, 40])
    mag = mag or r.choice([1, 1, 1, 1000, Fraction(1, 1024)])
    ties = r.random() < 0.35 if ties is None else ties
    if ties:
        pool = [C.dyadic(r, -4, 4, 8) * mag for _ in range(max(1, n // 2))]
        xs = [r.choice(pool) for _ in range(n)]
    else:
        xs = set()
        while len(xs) < n:
            xs.add(C.dyadic(r, -8, 8, 64) * mag)
        xs = list(xs); r.shuffle(xs)
    return xs

def eval_points(r, xs, k=5):
    lo, hi = min(xs), max(xs)
    span = (hi - lo) or Fraction(1)
    pts = [lo, hi, lo - span / 3, hi + span / 7, r.choice(xs)]
    for _ in range(k):
        pts.append(lo + span * Fraction(r.randint(-8, 72), 64))
    return pts

def fl(xs):
    return np.array([float(x) for x in xs])

def is_tied_value(xs, y):
    return sum(1 for v in xs if v == y) > 1

def correspondence(res, tier, seed):
    m = mu()
    r = C.rng_for(seed, "c16-corr")
    n = 60 if tier == "quick" else 600
    cc = C.CoqCases("c16", ["QL", "Ecdf", "CorrBase"], per_file=40)
    meta = []
    def add(expr, info, key):
        cc.add(expr); meta.append(info); res.case(key)
    for i in range(n):
        xs = gen_sample(r); ys = gen_sample(r)
        X, Y = C.ql(xs), C.ql(ys)
        fx, fy = fl(xs), fl(ys)
        pts = eval_points(r, xs)
        ps = [Fraction(0), Fraction(1), Fraction(1, 2)] + [Fraction(r.randint(0, 64), 64) for _ in range(4)]
        tied = len(set(xs)) < len(xs)
        # ecdf
        for em in ("step_function", "linear_interpolation"):
            use = [y for y in pts if not (em == "linear_interpolation" and is_tied_value(xs, y))]
            obs = m.ecdf(fx, fl(use), method=em)
            add("close_list (map (ecdf %s %s) %s) %s (1#1000000000)" % (em, X, C.ql(use), C.ql(obs)),
                dict(func="ecdf", method=em, x=[str(v) for v in xs], y=[str(v) for v in use], impl=[float(o) for o in obs]),
                ("ecdf", em, tied, len(xs) == 2))
        if len(set(xs)) > 1:
            counts, edges = np.histogram(fx, bins="auto")
            obs = m.ecdf(fx, fl(pts), method="kernel_density")
            add("close_list (map (ecdf_hist %s %s) %s) %s (1#1000000000)" % (C.ql(edges), C.ql(counts), C.ql(pts), C.ql(obs)),
                dict(func="ecdf", method="kernel_density", x=[str(v) for v in xs], impl=[float(o) for o in obs]),
                ("ecdf", "kernel_density", tied))
        # iecdf
        for im in IECDF:
            obs = m.iecdf(fx, fl(ps), method=im)
            tol = C.tol_for(obs)
            add("close_list (map (iecdf %s %s) %s) %s %s" % (im, X, C.ql(ps), C.ql(obs), C.q(tol)),
                dict(func="iecdf", method=im, x=[str(v) for v in xs], p=[str(v) for v in ps], impl=[float(o) for o in obs]),
                ("iecdf", im, tied, len(xs) == 2))
        # quantile mapping, one method pair per sample (all pairs over the run)
        em = ["step_function", "linear_interpolation"][i % 2]
        im = IECDF[(i // 2) % 9]
        vals = []
        for v in pts:
            if em == "linear_interpolation" and is_tied_value(xs, v):
                continue
            if em == "step_function" and im in DISCRETE:
                p = Fraction(sum(1 for x in xs if x <= v), len(xs))
                if (DISCRETE[im](len(ys), p)).denominator == 1 and p not in (0, 1):
                    res.count("skipped-at-float-discontinuity"); continue
            if em == "linear_interpolation" and im in DISCRETE:
                res.count("skipped-lin-discrete"); continue
            vals.append(v)
        if vals:
            obs = m.quantile_map_non_parametically(fx, fy, fl(vals), ecdf_method=em, iecdf_method=im)
            tol = C.tol_for(list(obs) + [float(v) for v in ys])
            add("close_list (map (qmap %s %s %s %s) %s) %s %s" % (em, im, X, Y, C.ql(vals), C.ql(obs), C.q(tol * 100)),
                dict(func="quantile_map_non_parametically", em=em, im=im, x=[str(v) for v in xs], y=[str(v) for v in ys], vals=[str(v) for v in vals], impl=[float(o) for o in obs]),
                ("qmap", em, im))
            obs = m.quantile_map_non_parametically_with_constant_extrapolation(fx, fy, fl(vals), ecdf_method=em, iecdf_method=im)
            add("close_list (map (qmap_extrap %s %s %s %s) %s) %s %s" % (em, im, X, Y, C.ql(vals), C.ql(obs), C.q(tol * 100)),
                dict(func="quantile_map_non_parametically_with_constant_extrapolation", em=em, im=im, x=[str(v) for v in xs], y=[str(v) for v in ys], vals=[str(v) for v in vals], impl=[float(o) for o in obs]),
                ("qmap_extrap", em, im))
        # the x-on-y shortcut in "normal" mode: every sample value mapped through the sample's own ECDF (same skips)
        def admissible(v):
            if em == "linear_interpolation" and (is_tied_value(xs, v) or im in DISCRETE): return False
            if em == "step_function" and im in DISCRETE:
                p = Fraction(sum(1 for x in xs if x <= v), len(xs))
                if (DISCRETE[im](len(ys), p)).denominator == 1 and p not in (0, 1): return False
            return True
        if all(admissible(v) for v in xs):
            from ibicus.utils._math_utils import quantile_map_x_on_y_non_parametically as xony
            obs = xony(fx, fy, mode="normal", ecdf_method=em, iecdf_method=im)
            tol = C.tol_for(list(obs) + [float(v) for v in ys])
            add("close_list (xony_normal %s %s %s %s) %s %s" % (em, im, X, Y, C.ql(obs), C.q(tol * 100)),
                dict(func="quantile_map_x_on_y_non_parametically", em=em, im=im, x=[str(v) for v in xs], y=[str(v) for v in ys], impl=[float(o) for o in obs]),
                ("x-on-y", em, im))
        # ... and in "isimipv3.0" mode (average ranks + linear quantile): no discontinuities, every sample qualifies
        from ibicus.utils._math_utils import quantile_map_x_on_y_non_parametically as xony2
        obs = xony2(fx, fy, mode="isimipv3.0")
        tol = C.tol_for(list(obs) + [float(v) for v in ys])
        add("close_list (xony_isimip %s %s) %s %s" % (X, Y, C.ql(obs), C.q(tol * 100)),
            dict(func="quantile_map_x_on_y_non_parametically(mode='isimipv3.0')", x=[str(v) for v in xs], y=[str(v) for v in ys], impl=[float(o) for o in obs]),
            ("x-on-y-isimip", tied))
        # sort_array_like_another_one (equal sizes)
        from ibicus.utils import sort_array_like_another_one
        zs = gen_sample(r, n=len(xs), ties=False)   # np.argsort is not stable: exact comparison needs a tie-free y
        obs = sort_array_like_another_one(fx, fl(zs))
        add("close_list (sort_like %s %s) %s 0" % (X, C.ql(zs), C.ql(obs)),
            dict(func="sort_array_like_another_one", x=[str(v) for v in xs], y=[str(v) for v in zs], impl=[float(o) for o in obs]),
            ("sort_like", tied, len(set(zs)) < len(zs)))
        if i < 2:
            res.samples.append(dict(x=[str(v) for v in xs], y=[str(v) for v in ys], points=[str(v) for v in pts[:4]]))
    fails, errors = cc.run()
    res.components["K4 Model/Ecdf.v vs utils/_math_utils.py"] = dict(cases=len(cc.cases), disagreements=len(fails), errors=len(errors))
    for e in errors[:3]:
        res.broke("correspondence-error", "K4", e)
    for i in fails[:5]:
        res.broke("correspondence", "K4 %s" % meta[i].get("func"), meta[i])
    res.rule = ("samples of sizes 2..40 of dyadic rationals (k/64, scaled by 1, 1000, 1/1024), 35% with ties; evaluation points at min, max, outside "
                "the range, at sample values and in between; probabilities 0, 1, 1/2 and k/64; distinct/non-trivial = distinct (function, method(s), has ties, size 2) classes")

# ------------------------------------------------------------------ laws on the implementation
TOL = 1e-12

def law_violations(m, xs, ys, r, dtype=None):
    """evaluate the C16 laws on the implementation for sample xs (and target ys); returns list of (class, detail)"""
    from ibicus.utils import sort_array_like_another_one
    out = []
    fx, fy = fl(xs), fl(ys)
    if dtype is not None:      # whole-number samples stored as integers / single precision
        fx, fy = fx.astype(dtype), fy.astype(dtype)
    pts = sorted(eval_points(r, xs, k=8))
    fp = fl(pts)
    const = len(set(xs)) == 1
    scale = max(1.0, float(np.max(np.abs(fx))), float(np.max(np.abs(fy))))
    if dtype is np.float32: scale *= 1e4        # single-precision samples: results carry single-precision rounding
    # the x-on-y shortcut (used by ISIMIP's imputation): in "normal" mode it IS quantile_map_non_parametically(x, y, x);
    # in either mode values that are equal have equal images and the order of distinct values is kept
    try:
        from ibicus.utils._math_utils import quantile_map_x_on_y_non_parametically as xony
        for mode in ("normal", "isimipv3.0"):
            q = np.asarray(xony(fx, fy, mode=mode), dtype=float)
            if mode == "normal" and not np.array_equal(q, np.asarray(m.quantile_map_non_parametically(fx, fy, fx), dtype=float)):
                out.append(("x-on-y:normal-differs-from-qmap", dict(n=[len(xs), len(ys)])))
            o = np.argsort(fx, kind="stable"); sx, sq = fx[o], q[o]
            if np.any((np.diff(sx) == 0) & (np.diff(sq) != 0)):
                out.append(("x-on-y:equal-inputs-different-images:" + mode, dict(n=[len(xs), len(ys)])))
            if np.any(np.diff(sq) < -1e-12 * scale):
                out.append(("x-on-y:not-monotone:" + mode, dict(n=[len(xs), len(ys)])))
    except ImportError:
        pass
    for em in ECDF:
        e = m.ecdf(fx, fp, method=em)
        if np.any(~np.isfinite(e)) or np.any(e < -TOL) or np.any(e > 1 + TOL):
            out.append(("ecdf-range:" + em, dict(values=e.tolist())))
        if np.any(np.diff(e) < -TOL):
            out.append(("ecdf-monotone:" + em, dict(points=fp.tolist(), values=e.tolist())))
        emax = float(m.ecdf(fx, np.array([fx.max()]), method=em)[0])
        if abs(emax - 1) > 1e-9:
            cls = "ecdf-at-max:" + em + (":constant-sample" if const else "")
            out.append((cls, dict(value=emax)))
    ps = np.array(sorted([0.0, 1.0] + [r.randint(0, 1024) / 1024 for _ in range(10)]))
    for im in IECDF:
        qv = m.iecdf(fx, ps, method=im)
        if np.any(np.diff(qv) < -TOL * scale):
            out.append(("iecdf-monotone:" + im, dict(p=ps.tolist(), values=qv.tolist())))
        if np.any(qv < fx.min() - TOL * scale) or np.any(qv > fx.max() + TOL * scale):
            out.append(("iecdf-range:" + im, dict(values=qv.tolist())))
        if qv[0] != fx.min() or qv[-1] != fx.max():
            out.append(("iecdf-endpoints:" + im, dict(q0=float(qv[0]), q1=float(qv[-1]), min=float(fx.min()), max=float(fx.max()))))
        for em in ECDF:
            mv = m.quantile_map_non_parametically(fx, fy, fp, ecdf_method=em, iecdf_method=im)
            if np.any(np.diff(mv) < -TOL * scale):
                out.append(("qmap-monotone:%s/%s" % (em, im), dict(values=mv.tolist())))
            if np.any(mv < fy.min() - TOL * scale) or np.any(mv > fy.max() + TOL * scale):
                out.append(("qmap-range:%s/%s" % (em, im), dict(values=mv.tolist())))
            me = m.quantile_map_non_parametically_with_constant_extrapolation(fx, fy, fp, ecdf_method=em, iecdf_method=im)
            inside = (fp >= fx.min()) & (fp <= fx.max())
            if not np.array_equal(me[inside], mv[inside]):
                out.append(("qmap-extrap-inside:%s/%s" % (em, im), {}))
            below, above = fp < fx.min(), fp > fx.max()
            if np.any(np.abs(me[below] - (fp[below] + fy.min() - fx.min())) > 1e-9 * scale) or \
               np.any(np.abs(me[above] - (fp[above] + fy.max() - fx.max())) > 1e-9 * scale):
                out.append(("qmap-extrap-shift:%s/%s" % (em, im), {}))
            if np.any(np.diff(me) < -1e-9 * scale):
                out.append(("qmap-extrap-monotone:%s/%s" % (em, im), dict(points=fp.tolist(), values=me.tolist())))
    # equal size rank transfer (default methods, tie-free source)
    if len(set(xs)) == len(xs):
        zs = gen_sample(r, n=len(xs), ties=r.random() < 0.3)
        fz = fl(zs)
        if dtype is not None: fz = np.round(fz).astype(dtype)
        mv = m.quantile_map_non_parametically(fx, fz, fx)
        want = np.sort(fz)[np.argsort(np.argsort(fx))]
        if not np.array_equal(mv, want):
            out.append(("equal-size-rank-transfer", dict(target=fz.tolist(), got=mv.tolist(), want=want.tolist())))
        # the interpolated pair is exact at the sample points too: ecdf(x_(k)) = k/(n-1), iecdf(k/(n-1)) = z_(k)
        if len(xs) >= 2:
            e = m.ecdf(fx, fx, method="linear_interpolation")
            wante = np.argsort(np.argsort(fx)) / (len(xs) - 1)
            if np.any(np.abs(e - wante) > 1e-9):
                out.append(("ecdf-linear-at-sample-points", dict(got=e.tolist(), want=wante.tolist())))
            mv = m.quantile_map_non_parametically(fx, fz, fx, ecdf_method="linear_interpolation", iecdf_method="linear")
            if np.any(np.abs(mv - want) > 1e-9 * scale):
                out.append(("equal-size-rank-transfer:linear_interpolation/linear", dict(got=mv.tolist(), want=want.tolist())))
    # the functions keep nothing between calls: a sample buffer refilled in place gives the result of the new content
    buf = fx.copy(); new = fl(gen_sample(r, n=len(xs)))
    if dtype is not None: new = np.round(new * 8).astype(dtype)
    for im in IECDF:
        m.iecdf(buf, ps, method=im)
    first = m.IECDF(buf)(ps)
    buf[:] = new
    for im in IECDF:
        if not np.array_equal(m.iecdf(buf, ps, method=im), m.iecdf(buf.copy(), ps, method=im), equal_nan=True):
            out.append(("stale-sample:iecdf:" + im, {}))
    if not np.array_equal(m.IECDF(buf)(ps), m.IECDF(buf.copy())(ps)):
        out.append(("stale-sample:IECDF", {}))
    for em in ECDF:
        if not np.array_equal(m.ecdf(buf, fp, method=em), m.ecdf(buf.copy(), fp, method=em), equal_nan=True):
            out.append(("stale-sample:ecdf:" + em, {}))
    if not np.array_equal(m.quantile_map_non_parametically(buf, fy, fp), m.quantile_map_non_parametically(buf.copy(), fy, fp), equal_nan=True):
        out.append(("stale-sample:quantile_map", {}))
    zs = gen_sample(r, n=len(xs))
    fz = fl(zs)
    s = sort_array_like_another_one(fx, fz)
    if not np.array_equal(np.sort(s), np.sort(fx)):
        out.append(("sort-like-permutation", {}))
    # ordered like y: y_i < y_j  ==>  s_i <= s_j   (ties in y may be broken arbitrarily)
    prev_max = -np.inf
    for v in np.unique(fz):
        grp = s[fz == v]
        if grp.min() < prev_max:
            out.append(("sort-like-order", dict(x=fx.tolist(), y=fz.tolist(), got=s.tolist()))); break
        prev_max = grp.max()
    return out

def search(res, tier, seed, deep=False):
    m = mu()
    r = C.rng_for(seed, "c16-search")
    n = 80 if tier == "quick" else 800
    if deep: n *= 3
    seen = set()
    for i in range(n):
        if i % 10 == 9:
            c = C.dyadic(r, -8, 8, 8); xs = [c] * r.randint(2, 6)    # constant sample
        else:
            xs = gen_sample(r)
        ys = gen_sample(r)
        dtype = None
        if i % 6 == 4:           # whole-number records stored as integers or in single precision
            k = r.choice([3, 5, 9, 17, 30])
            if r.random() < 0.5:
                xs = r.sample(range(-40, 60), k)
            else:
                xs = [r.randint(-10, 10) for _ in range(k)]
            ys = [r.randint(-30, 30) for _ in range(r.choice([3, 8, 20]))]
            if len(set(ys)) < 2: ys[0] = ys[0] + 7
            if len(set(xs)) < 2: xs[0] = xs[0] + 7
            dtype = r.choice([np.int64, np.int32, np.float32])
        with warnings.catch_warnings():
            warnings.simplefilter("ignore")
            try:
                bad = law_violations(m, xs, ys, r, dtype)
            except Exception as e:
                bad = [("exception:" + type(e).__name__, dict(error=repr(e)[:300]))]
        res.case(("laws", len(xs), len(set(xs)) < len(xs), len(set(xs)) == 1))
        for cls, det in bad:
            if cls in seen: continue
            seen.add(cls)
            res.witness(dict(component="utils._math_utils", statement="ecdf/iecdf/quantile-map law violated on the implementation: " + cls,
                             input=dict(x=[str(v) for v in xs], y=[str(v) for v in ys], dtype=(np.dtype(dtype).name if dtype is not None else "float64")), observed=det,
                             expected="range/monotonicity/end-point/rank laws of C16", **{"class": cls}))
    # large samples (thousands of values, tie-free): end points, exactness at the sample points, rank transfer
    for N in ([2500] if tier == "quick" else [2500, 5000, 12000]):
        rs = np.random.RandomState(r.randint(0, 10 ** 6))
        fx = np.unique(np.round(rs.normal(0, 100, N * 2) * 1024) / 1024); rs.shuffle(fx)
        fz = np.unique(np.round(rs.gamma(2.0, 30, N * 2) * 1024) / 1024); rs.shuffle(fz)
        N = min(N, len(fx), len(fz)); fx, fz = fx[:N], fz[:N]   # (rounding may leave fewer than N distinct values)
        res.case(("laws-large", N))
        bad = []
        e = m.ecdf(fx, fx, method="linear_interpolation"); want = np.argsort(np.argsort(fx)) / (N - 1)
        if np.any(np.abs(e - want) > 1e-9): bad.append(("ecdf-linear-at-sample-points", dict(n=N, max_error=float(np.max(np.abs(e - want))))))
        e = m.ecdf(fx, fx, method="step_function"); want = (np.argsort(np.argsort(fx)) + 1) / N
        if np.any(np.abs(e - want) > 1e-9): bad.append(("ecdf-step-at-sample-points", dict(n=N)))
        for im in IECDF:
            q = m.iecdf(fx, np.array([0.0, 1.0]), method=im)
            if q[0] != fx.min() or q[1] != fx.max(): bad.append(("iecdf-endpoints:" + im, dict(n=N)))
        wantz = np.sort(fz)[np.argsort(np.argsort(fx))]
        if not np.array_equal(m.quantile_map_non_parametically(fx, fz, fx), wantz): bad.append(("equal-size-rank-transfer", dict(n=N)))
        mv = m.quantile_map_non_parametically(fx, fz, fx, ecdf_method="linear_interpolation", iecdf_method="linear")
        if np.any(np.abs(mv - wantz) > 1e-9 * 1000): bad.append(("equal-size-rank-transfer:linear_interpolation/linear", dict(n=N, max_error=float(np.max(np.abs(mv - wantz))))))
        for cls, det in bad:
            if cls in seen: continue
            seen.add(cls)
            res.witness(dict(component="utils._math_utils", statement="ecdf/iecdf/quantile-map law violated on the implementation: " + cls,
                             input=dict(kind="large-sample", n=N, seed=seed), observed=det, expected="range/monotonicity/end-point/rank laws of C16", **{"class": cls}))
    res.components["search"] = dict(samples=n, note="laws evaluated for all 3 ecdf x 9 iecdf methods per sample")

def replay(w):
    m = mu()
    r = C.rng_for(0, "c16-replay")
    xs = [Fraction(v) for v in w["input"]["x"]]; ys = [Fraction(v) for v in w["input"]["y"]]
    with warnings.catch_warnings():
        warnings.simplefilter("ignore")
        bad = law_violations(m, xs, ys, r)
    hit = [b for b in bad if b[0] == w["class"]]
    return bool(hit), hit[:1] or bad[:1]
