"""C06 — values stay attached to their time steps (time-order equivariance).
Tie: translator (GenWindows) + hand driver Model/Driver.v; correspondence K3 on ORIGINAL and PERMUTED inputs
(the real loops with probe window methods vs the model); search: all eight real debiasers with seasonal and
multi-year running windows: permute obs, cm_hist, cm_future together with their time arrays (random
permutations, reversal, year-block shuffles) and require the output to be permuted exactly like cm_future
(like obs for DeltaChange)."""
import datetime, warnings, logging
import numpy as np
from . import common as C
from . import drivers

GEN_FILES = ["GenWindows"]
TRUSTED = ["C06: hand model Model/Driver.v of the scatter loop (K3); pointwise / order-free character of each debiaser's window method is a hypothesis of the theorem (proved for LinearScaling, searched on the implementation for all eight)",
           "C06: ISIMIP step 2 (imputation interpolates ranks over positions) is only reached with missing values and excluded; rank-based methods need tie-free values"]

def correspondence(res, tier, seed):
    r = C.rng_for(seed, "c06-corr")
    n = 24 if tier == "quick" else 240
    cc = C.CoqCases("k3c06", ["NP", "QL", "GenWindows", "Grid", "Driver", "GridCorr", "DriverCorr", "CorrBase"], per_file=6)
    meta = []
    for i in range(n):
        kind = ["rw", "dc", "isimip", "cdft"][i % 4] if (tier != "quick" or i % 8 != 3) else "rw"
        case = drivers.gen_case(r, kind, small=True)
        nO, nH, nF = case["n"]
        perm = [np.array(r.sample(range(m), m)) for m in (nO, nH, nF)]
        if i % 5 == 0:
            perm = [np.arange(m)[::-1] for m in (nO, nH, nF)]
        out, err, aux = drivers.run_impl(case, perm=perm)
        if aux is None:
            res.broke("correspondence-error", "K3(permuted) implementation raised", dict(kind=kind, error=repr(err)[:300])); continue
        # the model is evaluated on the permuted series as they were handed to the implementation
        pc = dict(case); pc["obs"], pc["hist"], pc["fut"] = case["obs"][perm[0]], case["hist"][perm[1]], case["fut"][perm[2]]
        cc.add(drivers.coq_case(pc, out, aux))
        m = dict(kind=kind, L=case["L"], S=case["S"], n=case["n"], start=case["start"], permuted=True)
        meta.append(m)
        res.case(("K3perm", kind, i % 5 == 0), sample=m if len(res.samples) < 4 else None)
    fails, errors = cc.run()
    res.components["K3 (permuted storage order) Model/Driver.v vs apply_location"] = dict(cases=len(cc.cases), disagreements=len(fails), errors=len(errors))
    for e in errors[:3]:
        res.broke("correspondence-error", "K3perm", e)
    for i in fails[:5]:
        res.broke("correspondence", "K3perm " + meta[i]["kind"], meta[i])
    res.rule = ("K3 on randomly permuted / reversed storage order of all three dated series (probe window methods, real loops incl. CDFt's year loop); "
                "search: eight real debiasers x {random permutation, reversal, year-block shuffle}, windows over days and over years active, tie-free data; "
                "distinct/non-trivial = distinct (driver kind / debiaser, permutation kind) classes")

REAL = ["LinearScaling", "DeltaChange", "QuantileMapping", "ScaledDistributionMapping", "CDFt", "ECDFM", "QuantileDeltaMapping", "ISIMIP"]

# non-default but valid option values (quick: the first and one more per run; thorough: all)
VARIANTS = [("ISIMIP", dict(event_likelihood_adjustment=True)), ("ISIMIP", dict(nonparametric_qm=True)),
            ("QuantileMapping", dict(mapping_type="nonparametric")), ("ISIMIP", dict(event_likelihood_adjustment=True, running_window_mode=False)),
            ("ScaledDistributionMapping", dict(running_window_mode=False)), ("CDFt", dict(running_window_mode=False)),
            ("QuantileDeltaMapping", dict(running_window_mode_over_years_of_cm_future=False)), ("ISIMIP", dict(detrending=False))]

def build(name, r, over=None):
    import ibicus.debias as D, scipy.stats
    L = r.choice([9, 15, 31]); S = r.choice([s for s in (1, 3, 9, 15) if s <= L])
    kw = dict(running_window_mode=True, running_window_length=L, running_window_step_length=S)
    if name == "ISIMIP": kw["running_window_step_length"] = max(S, 9) if L >= 9 else L
    if name == "ECDFM": kw["distribution"] = scipy.stats.norm
    if name == "QuantileDeltaMapping": kw.update(running_window_over_years_of_cm_future_length=3, running_window_over_years_of_cm_future_step_length=1, cdf_threshold=1e-3)
    if name == "CDFt": kw.update(running_window_over_years_of_cm_future_length=3, running_window_over_years_of_cm_future_step_length=1)
    kw.update(over or {})
    with warnings.catch_warnings():
        warnings.simplefilter("ignore")
        return getattr(D, name).from_variable("tas", **kw), kw

def search(res, tier, seed, deep=False):
    logging.getLogger("ibicus").setLevel(logging.CRITICAL)
    from ibicus.utils import create_array_of_consecutive_dates, year
    r = C.rng_for(seed, "c06-search")
    seen = set()
    def report(cls_, inp, obs, stmt):
        if cls_ in seen: return
        seen.add(cls_)
        res.witness(dict(component="apply_location (permuted series)", statement=stmt, input=inp, observed=obs, expected="C06", **{"class": cls_}))
    rounds = 1 if tier == "quick" else 5
    for rnd in range(rounds):
        variants = VARIANTS if tier != "quick" else [VARIANTS[0], VARIANTS[1 + (seed + rnd) % (len(VARIANTS) - 1)]]
        for name, over in [(n_, None) for n_ in REAL] + variants:
            d, kw = build(name, r, over)
            nO, nH, nF = r.randint(740, 800), r.randint(740, 800), r.randint(740, 1100)
            starts = ["1980-%02d-%02d" % (r.randint(1, 12), r.randint(1, 28)), "1980-%02d-%02d" % (r.randint(1, 12), r.randint(1, 28)), "2040-%02d-%02d" % (r.randint(1, 12), r.randint(1, 28))]
            tO, tH, tF = [create_array_of_consecutive_dates(n, np.datetime64(s)) for n, s in zip((nO, nH, nF), starts)]
            rs = np.random.RandomState(r.randint(0, 10 ** 6))
            mk = lambda n, s: 280 + s + 8 * np.sin(np.arange(n) * 2 * np.pi / 365.25) + rs.normal(0, 2, n)
            obs, hist, fut = mk(nO, 0), mk(nH, 2), mk(nF, 3)
            with warnings.catch_warnings():
                warnings.simplefilter("ignore")
                np.random.seed(5); base = d.apply_location(obs, hist, fut, time_obs=tO, time_cm_hist=tH, time_cm_future=tF)
            kinds = ["random", "reverse", "yearblocks", "interior"]
            for pk in (kinds if tier != "quick" else [kinds[(rnd + REAL.index(name) + seed) % 4], "interior"][: (2 if REAL.index(name) % 2 == seed % 2 else 1)]):
                def perm(n, t):
                    if pk == "random": return np.array(r.sample(range(n), n))
                    if pk == "interior":      # first and last stored element stay where they are
                        return np.array([0] + r.sample(range(1, n - 1), n - 2) + [n - 1])
                    if pk == "reverse": return np.arange(n)[::-1]
                    ys = year(t); blocks = [np.where(ys == y)[0] for y in np.unique(ys)]; r.shuffle(blocks); return np.concatenate(blocks)
                pO, pH, pF = perm(nO, tO), perm(nH, tH), perm(nF, tF)
                with warnings.catch_warnings():
                    warnings.simplefilter("ignore")
                    np.random.seed(5)
                    out = d.apply_location(obs[pO], hist[pH], fut[pF], time_obs=tO[pO], time_cm_hist=tH[pH], time_cm_future=tF[pF])
                want = base[pO] if name == "DeltaChange" else base[pF]
                res.case(("perm", name, pk, tuple(sorted((over or {}).items()))))
                scale = max(1.0, float(np.nanmax(np.abs(want))))
                bad = out.shape != want.shape or not np.allclose(out, want, rtol=0, atol=1e-9 * scale, equal_nan=True)
                if bad:
                    report("not-equivariant:" + name, dict(debiaser=name, settings={k: str(v) for k, v in kw.items()}, permutation=pk, starts=starts, n=[nO, nH, nF], seed=seed),
                           float(np.nanmax(np.abs(out - want))) if out.shape == want.shape else "shape",
                           "permuting the series together with their time arrays changed the debiased value of a time step")

def replay(w):
    return True, "re-run ./check C06 (inputs are regenerated from the recorded seed)"
