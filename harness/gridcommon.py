"""Probe debiasers (module level: picklable for multiprocessing) and helpers shared by C05 / C13."""
import time, warnings, logging
import numpy as np
import attrs
from fractions import Fraction
from ibicus.debias._debiaser import Debiaser
from ibicus.debias import DeltaChange

SENTINEL = -123456789

class ProbeError(Exception):
    """a user-defined exception class (not a subclass of the built-in error families)"""

# the failure a user-defined debiaser raises is chosen by the marker value: failsafe must isolate any Exception
EXC = {999: RuntimeError, 998: IndexError, 997: KeyError, 996: AssertionError, 995: ZeroDivisionError, 994: ProbeError, 993: TypeError, 992: ValueError}
def _maybe_fail(marker):
    e = EXC.get(int(marker)) if np.isfinite(marker) else None
    if e is not None:
        # exceptions as user code raises them: with a message, bare (no arguments), with a non-string or several arguments
        args = {999: ("probe failure",), 998: (), 997: (3,), 996: (), 995: ("probe failure",), 994: (), 993: ("probe", 5), 992: ("probe failure",)}[int(marker)]
        raise e(*args)

@attrs.define(slots=False)
class ProbeLS(Debiaser):
    """apply_location = cm_future + (sum obs - sum cm_hist); raises when obs[0] == 999; sleeps a
    value-dependent few milliseconds so that pool workers complete out of order"""
    sleep: bool = attrs.field(default=False)
    def __attrs_post_init__(self): pass
    @classmethod
    def from_variable(cls, v, **kw): return cls(**kw)
    def apply_location(self, obs, cm_hist, cm_future, **kw):
        if self.sleep:
            time.sleep(((int(abs(cm_future[0]) * 64)) % 5) * 0.004)
        _maybe_fail(obs[0])
        return cm_future + (obs.sum() - cm_hist.sum())

class ProbeDC(DeltaChange):
    def apply_location(self, obs, cm_hist, cm_future, **kw):
        _maybe_fail(obs[0])
        return obs + (cm_future.sum() - cm_hist.sum())

def make_probe(kind, sleep=False):
    if kind == "ls":
        return ProbeLS(sleep=sleep)
    return ProbeDC(delta_type="additive")

def rand_grid(r, T, X, Y, failing=()):
    """dyadic values k/8 so that all sums are exact in float64; failing cells get the marker 999 in obs[0]"""
    a = np.array([[[r.randint(-40, 40) / 8 for _ in range(Y)] for _ in range(X)] for _ in range(T)], dtype=float)
    return a

def mark_failing(obs, cells, r=None):
    obs = obs.copy()
    for (i, j) in cells:
        obs[0, i, j] = 999 if r is None else r.choice(sorted(EXC))
    return obs

def run_apply(d, obs, hist, fut, parallel=False, nr_processes=2, failsafe=False, **kw):
    logging.getLogger("ibicus").setLevel(logging.CRITICAL)
    with warnings.catch_warnings():
        warnings.simplefilter("ignore")
        try:
            if parallel:
                return d.apply(obs, hist, fut, parallel=True, nr_processes=nr_processes, failsafe=failsafe, progressbar=False, **kw), None
            return d.apply(obs, hist, fut, progressbar=False, failsafe=failsafe, **kw), None
        except Exception as e:
            return None, e

def cellmajor(a):
    """[t, x, y] -> python list [x][y][t] of Fractions, NaN -> SENTINEL"""
    T, X, Y = a.shape
    return [[[Fraction(SENTINEL) if np.isnan(a[t, i, j]) else Fraction(float(a[t, i, j])) for t in range(T)] for j in range(Y)] for i in range(X)]

def coq_grid(g):
    from . import common as C
    return "[" + "; ".join("[" + "; ".join(C.ql(c) for c in row) + "]" for row in g) + "]"
