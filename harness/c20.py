"""C20 — bias and trend evaluation report the documented quantities.
Tie: hand model Model/Eval.v; correspondence K13: the real private formula functions of evaluate/marginal.py, trend.py and
multivariate.py (and the public calculate_* wrappers) vs the model on 1x1 and larger grids, 1..4 years; search: the documented
formulas recomputed independently with numpy, self-evaluation identities, independence of the number of locations / years."""
import warnings
import numpy as np
from fractions import Fraction
from . import common as C

GEN_FILES = []
TRUSTED = ["C20: np.quantile(method='linear') as modelled in Model/Ecdf.v (validated by K4); metrics enter the formulas through their exceedance probabilities (C19)",
           "C20: rmse_spatial_correlation_distribution is covered only by the self-evaluation search (np.corrcoef / sklearn are outside the model)"]

def grid(r, T, X, Y, lo=1, hi=40):
    return np.array([[[r.randint(lo * 4, hi * 4) / 4 for _ in range(Y)] for _ in range(X)] for _ in range(T)], dtype=float)

def cells(a):
    """[t, x, y] -> Coq grid (cells x time)"""
    T = a.shape[0]; f = a.reshape(T, -1)
    return "[" + "; ".join(C.ql([Fraction(float(v)) for v in f[:, c]]) for c in range(f.shape[1])) + "]"

def times(T, start):
    from ibicus.utils import create_array_of_consecutive_dates
    return create_array_of_consecutive_dates(T, np.datetime64(start))

def cond_tol(v, den, scale):
    """absolute tolerance for 100 * (a - b) / b computed in float64 from data of magnitude [scale]:
    the rounding error of the denominator (~1e-15 * scale) is amplified by |v| / |den|"""
    v = np.asarray(v, dtype=float); den = np.abs(np.asarray(den, dtype=float))
    if v.size == 0 or not np.all(np.isfinite(v)) or np.any(den == 0):
        return "(1#1000000000)"
    t = max(1e-9, 1e-12 * float(np.max(np.abs(v))) * scale / float(np.min(den)))
    return C.q(Fraction(t).limit_denominator(10 ** 15))

def opt(expr, val, tol="(1#1000000000)"):
    if val is not None and not np.all(np.isfinite(np.asarray(val, dtype=float))):
        return None          # division by zero in the implementation (inf/nan): outside the formulas' domain
    if val is None:
        return "(match %s with None => true | Some _ => false end)" % expr
    return "(match %s with Some l__ => close_list l__ %s %s | None => false end)" % (expr, C.ql(np.asarray(val).reshape(-1)), tol)

def correspondence(res, tier, seed):
    import ibicus.evaluate.marginal as M, ibicus.evaluate.trend as TR, ibicus.evaluate.multivariate as MV
    from ibicus.evaluate.metrics import ThresholdMetric
    from ibicus.utils import year
    r = C.rng_for(seed, "c20-corr")
    n = 40 if tier == "quick" else 400
    cc = C.CoqCases("c20", ["QL", "NP", "Ecdf", "Metrics", "Eval", "MetricsCorr", "CorrBase"], per_file=25)
    meta = []
    def add(e, m, key):
        if e is None:
            res.count("skipped-nonfinite"); return
        cc.add(e); meta.append(m); res.case(key, sample=m if len(res.samples) < 4 else None)
    B = lambda b: "true" if b else "false"
    with warnings.catch_warnings():
        warnings.simplefilter("ignore")
        for i in range(n):
            X, Y = r.choice([(1, 1), (1, 1), (2, 1), (2, 3)]); T = r.choice([6, 15, 40])
            obs, cm = grid(r, T, X, Y), grid(r, T, X, Y)
            info = dict(shape=[T, X, Y])
            for bt in ("percentage", "absolute"):
                v = M._marginal_mean_bias(obs, cm, bt)
                add("close_list (mean_bias %s %s %s) %s (1#1000000000)" % (B(bt == "percentage"), cells(obs), cells(cm), C.ql(v.reshape(-1))), dict(func="_marginal_mean_bias", type=bt, **info), ("mean_bias", bt, X * Y > 1))
                q = Fraction(r.randint(0, 20), 20)
                v = M._marginal_quantile_bias(float(q), obs, cm, bt)
                add("close_list (quantile_bias %s %s %s %s) %s (1#1000000000)" % (B(bt == "percentage"), C.q(q), cells(obs), cells(cm), C.ql(v.reshape(-1))), dict(func="_marginal_quantile_bias", type=bt, q=str(q), **info), ("quantile_bias", bt))
            m = ThresholdMetric(threshold_value=float(r.randint(8, 30)), threshold_type=r.choice(["higher", "lower"]), name="m")
            po, pc = m.calculate_exceedance_probability(obs), m.calculate_exceedance_probability(cm)
            if np.all(po > 0):
                v = M._marginal_metrics_bias(m, obs, cm)
                add("close_list (metrics_bias %s %s) %s (1#1000000000)" % (C.ql(po.reshape(-1)), C.ql(pc.reshape(-1)), C.ql(v.reshape(-1))), dict(func="_marginal_metrics_bias", **info), ("metrics_bias",))
            v = M._marginal_metrics_absolute_bias(m, obs, cm)
            add("close_list (metrics_absolute_bias %s %s) %s (1#1000000000)" % (C.ql(po.reshape(-1)), C.ql(pc.reshape(-1)), C.ql(v.reshape(-1))), dict(func="_marginal_metrics_absolute_bias", **info), ("metrics_abs_bias",))
            # days per year
            ny = r.choice([1, 1, 2, 3, 4]); Td = 365 * ny + (1 if ny >= 3 else 0)
            start = "20%02d-01-01" % r.randint(1, 9) if r.random() < 0.7 else "2003-%02d-%02d" % (r.randint(2, 12), r.randint(1, 28))
            tt = times(Td, start)
            d = grid(r, Td, 1, 1)
            ye = M._yearly_exceedances(m, d, tt)
            _, counts = np.unique(year(tt), return_counts=True)
            inst = m.calculate_instances_of_threshold_exceedance(d, time=tt).reshape(-1).astype(bool)
            add("nlist_eqb' (yearly_exceedances %s %s) %s" % (C.nl(counts), C.bl(inst), C.nl(ye.reshape(-1).astype(int))), dict(func="_yearly_exceedances", years=int(len(counts)), start=start), ("yearly", len(counts)))
            # trends
            rv, rf, bv, bf = [grid(r, T, X, Y) for _ in range(4)]
            if i % 5 == 0: bv, bf = rv.copy(), rf.copy()
            for tt_ in ("additive", "multiplicative"):
                mult = tt_ == "multiplicative"
                v = TR._calculate_mean_trend_bias(tt_, rv, rf, bv, bf)
                tolv = cond_tol(v, (rf.mean(axis=0) - rv.mean(axis=0)) if not mult else rv.mean(axis=0), 40.0)
                add(None if not np.all(np.isfinite(v)) else "close_list (mean_trend_bias %s %s %s %s %s) %s %s" % (B(mult), cells(rv), cells(rf), cells(bv), cells(bf), C.ql(v.reshape(-1)), tolv), dict(func="_calculate_mean_trend_bias", trend_type=tt_, **info), ("mean_trend_bias", tt_))
                v = TR._calculate_mean_trend(tt_, bv, bf)
                add("close_list (mean_trend %s %s %s) %s (1#1000000000)" % (B(mult), cells(bv), cells(bf), C.ql(v.reshape(-1))), dict(func="_calculate_mean_trend", trend_type=tt_, **info), ("mean_trend", tt_))
                q = Fraction(r.randint(1, 19), 20)
                def safe(f, *a):
                    try: return f(*a)
                    except ZeroDivisionError: return None
                v = safe(TR._calculate_quantile_trend_bias, tt_, float(q), rv, rf, bv, bf)
                tolq = cond_tol(v, (np.quantile(rf, float(q), axis=0) - np.quantile(rv, float(q), axis=0)) if not mult else np.quantile(rv, float(q), axis=0), 40.0) if v is not None else "(1#1000000000)"
                add(opt("quantile_trend_bias %s %s %s %s %s %s" % (B(mult), C.q(q), cells(rv), cells(rf), cells(bv), cells(bf)), v, tolq), dict(func="_calculate_quantile_trend_bias", trend_type=tt_, q=str(q), **info), ("q_trend_bias", tt_, X * Y > 1))
                v = safe(TR._calculate_quantile_trend, tt_, float(q), bv, bf)
                add(opt("quantile_trend %s %s %s %s" % (B(mult), C.q(q), cells(bv), cells(bf)), v), dict(func="_calculate_quantile_trend", trend_type=tt_, q=str(q), **info), ("q_trend", tt_, X * Y > 1))
                P = [m.calculate_exceedance_probability(a).reshape(-1) for a in (rv, rf, bv, bf)]
                v = safe(TR._calculate_metrics_trend_bias, tt_, m, rv, rf, bv, bf)
                if not (tt_ == "additive" and np.any(P[1] - P[0] == 0)):
                    add(opt("metrics_trend_bias %s %s %s %s %s" % (B(mult), C.ql(P[0]), C.ql(P[1]), C.ql(P[2]), C.ql(P[3])), v), dict(func="_calculate_metrics_trend_bias", trend_type=tt_, **info), ("m_trend_bias", tt_, X * Y > 1))
                v = safe(TR._calculate_metrics_trend, tt_, m, bv, bf)
                add(opt("metrics_trend %s %s %s" % (B(mult), C.ql(P[2]), C.ql(P[3])), v), dict(func="_calculate_metrics_trend", trend_type=tt_, **info), ("m_trend", tt_, X * Y > 1))
            # chi
            m2 = ThresholdMetric(threshold_value=float(r.randint(8, 30)), threshold_type="higher", name="m2")
            d1, d2 = grid(r, T, 1, 1), grid(r, T, 1, 1)
            i1 = m.calculate_instances_of_threshold_exceedance(d1).reshape(-1).astype(bool); i2 = m2.calculate_instances_of_threshold_exceedance(d2).reshape(-1).astype(bool)
            try:
                v = float(MV._calculate_chi(m, m2, d1, d2)[0, 0])
            except ValueError:
                v = None
            e = "chi %s %s" % (C.bl(i1), C.bl(i2))
            add(("(match %s with None => true | _ => false end)" % e) if v is None else "(match %s with Some c__ => close c__ %s (1#1000000000) | None => false end)" % (e, C.q(v)),
                dict(func="_calculate_chi", impl=v), ("chi", v is None))
    fails, errors = cc.run()
    res.components["K13 Model/Eval.v vs evaluate/{marginal,trend,multivariate}.py"] = dict(cases=len(cc.cases), disagreements=len(fails), errors=len(errors))
    for e in errors[:3]:
        res.broke("correspondence-error", "K13", e)
    for i in fails[:5]:
        res.broke("correspondence", "K13 " + meta[i]["func"], meta[i])
    res.rule = ("grids 1x1, 2x1, 2x3 with 6..40 time steps of quarter-integers, single- and multi-year daily axes (1..4 years, various start dates), "
                "additive and multiplicative trends, mean / quantile / metric statistics, self-evaluation corners; distinct/non-trivial = distinct (function, option, multi-cell) classes")

def search(res, tier, seed, deep=False):
    import ibicus.evaluate as E
    import ibicus.evaluate.marginal as M, ibicus.evaluate.trend as TR, ibicus.evaluate.multivariate as MV
    from ibicus.evaluate.metrics import ThresholdMetric
    r = C.rng_for(seed, "c20-search")
    seen = set()
    def report(cls_, inp, obs, stmt):
        if cls_ in seen: return
        seen.add(cls_)
        res.witness(dict(component="ibicus.evaluate", statement=stmt, input=inp, observed=obs, expected="C20", **{"class": cls_}))
    n = 12 if tier == "quick" else 120
    with warnings.catch_warnings():
        warnings.simplefilter("ignore")
        for i in range(n):
            X, Y = r.choice([(1, 1), (2, 2), (3, 1)])
            ny = r.choice([1, 2, 3]); T = 365 * ny
            rs = np.random.RandomState(r.randint(0, 10 ** 6))
            mk = lambda s: np.abs(rs.normal(10 + s, 3, (T, X, Y))) + 0.5
            obs, raw_v, raw_f, bc_v, bc_f = mk(0), mk(1), mk(2), mk(0.2), mk(1.3)
            t = times(T, "2001-01-01"); tf = times(T, "2051-01-01")
            m = ThresholdMetric(threshold_value=12.0, threshold_type="higher", name="warm")
            inp = dict(shape=[T, X, Y], years=ny, seed=seed, i=i)
            def bias_of(df, metric, col="Bias"):
                return np.asarray(df[df["Metric"] == metric][col].values[0], dtype=float)
            try:
                res.case(("marginal", X * Y > 1, ny))
                df = E.marginal.calculate_marginal_bias(obs=obs, statistics=["mean", 0.9], metrics=[m], percentage_or_absolute="percentage", cm=raw_v)
                if not np.allclose(bias_of(df, "Mean"), 100 * (raw_v.mean(0) - obs.mean(0)) / obs.mean(0)):
                    report("marginal-mean", inp, None, "percentage bias of the mean is not 100*(cm-obs)/obs")
                if not np.allclose(bias_of(df, "0.9 qn"), 100 * (np.quantile(raw_v, 0.9, 0) - np.quantile(obs, 0.9, 0)) / np.quantile(obs, 0.9, 0)):
                    report("marginal-quantile", inp, None, "percentage bias of the quantile wrong")
                po, pc = (obs > 12).mean(0), (raw_v > 12).mean(0)
                if not np.allclose(bias_of(df, "warm"), 100 * (pc - po) / po):
                    report("marginal-metric", inp, None, "percentage bias of the metric wrong")
                dfa = E.marginal.calculate_marginal_bias(obs=obs, statistics=["mean"], metrics=[m], percentage_or_absolute="absolute", cm=raw_v)
                if not np.allclose(bias_of(dfa, "Mean"), raw_v.mean(0) - obs.mean(0)) or not np.allclose(bias_of(dfa, "warm"), 365 * pc - 365 * po):
                    report("marginal-absolute", inp, None, "absolute bias wrong")
                dfs = E.marginal.calculate_marginal_bias(obs=obs, statistics=["mean", 0.5], metrics=[m], cm=obs.copy())
                if any(np.any(np.abs(np.asarray(b, dtype=float)) > 1e-12) for b in dfs["Bias"].values):
                    report("self-bias", inp, None, "a dataset evaluated against itself must have zero bias")
                # days per year
                dd = E.marginal.calculate_bias_days_metrics(obs_data=[obs, t], metrics=[m], cm=[raw_v, t])
                want_obs = (obs > 12).sum(0) / ny; want_cm = (raw_v > 12).sum(0) / ny
                if not np.allclose(np.asarray(dd["Obs"].values[0], dtype=float), want_obs) or not np.allclose(np.asarray(dd["Bias"].values[0], dtype=float), want_cm - want_obs):
                    report("days-per-year:%d" % ny, inp, dict(got=np.asarray(dd["Obs"].values[0], dtype=float).reshape(-1)[:3].tolist(), want=want_obs.reshape(-1)[:3].tolist()),
                           "mean days per year beyond the threshold wrong (must not depend on the number of years)")
                # a record with whole years missing (2001 and 2003, say): the mean is over the years present
                if ny >= 2:
                    gap_t = np.concatenate([times(365, "2001-01-01")] + [times(365, "%d-01-01" % (2001 + 2 * k)) for k in range(1, ny)])
                    ddg = E.marginal.calculate_bias_days_metrics(obs_data=[obs, gap_t], metrics=[m], cm=[raw_v, gap_t])
                    res.case(("days-years-with-gaps", ny))
                    if not np.allclose(np.asarray(ddg["Obs"].values[0], dtype=float), want_obs) or not np.allclose(np.asarray(ddg["Bias"].values[0], dtype=float), want_cm - want_obs):
                        report("days-per-year:years-with-gaps", dict(inp, years=[2001 + 2 * k for k in range(ny)]), dict(got=np.asarray(ddg["Obs"].values[0], dtype=float).reshape(-1)[:3].tolist(), want=want_obs.reshape(-1)[:3].tolist()),
                               "mean days per year beyond the threshold: the mean is over the years present in the record, not over the span between the first and last year")
                # several metrics in one call, two of them without a name (both "unknown"): one row per metric,
                # each with its own observational value
                ms = [ThresholdMetric(threshold_value=9.0, threshold_type="higher"), ThresholdMetric(threshold_value=13.0, threshold_type="higher"), m]
                dd = E.marginal.calculate_bias_days_metrics(obs_data=[obs, t], metrics=ms, cm=[raw_v, t])
                res.case(("days-multi", X * Y > 1))
                for k_, thr_ in enumerate((9.0, 13.0, 12.0)):
                    wo, wc = (obs > thr_).sum(0) / ny, (raw_v > thr_).sum(0) / ny
                    if len(dd) != 3 or not np.allclose(np.asarray(dd["Obs"].values[k_], dtype=float), wo) or not np.allclose(np.asarray(dd["Bias"].values[k_], dtype=float), wc - wo):
                        report("days-per-year-several-metrics", dict(inp, thresholds=[9.0, 13.0, 12.0], names=[x.name for x in ms], row=k_), None,
                               "with several metrics in one call a row does not hold that metric's own Obs / Bias"); break
                dm = E.marginal.calculate_marginal_bias(obs=obs, statistics=[], metrics=ms, percentage_or_absolute="absolute", cm=raw_v)
                for k_, thr_ in enumerate((9.0, 13.0, 12.0)):
                    if len(dm) != 3 or not np.allclose(np.asarray(dm["Bias"].values[k_], dtype=float), 365 * (raw_v > thr_).mean(0) - 365 * (obs > thr_).mean(0)):
                        report("marginal-several-metrics", dict(inp, row=k_), None, "with several metrics in one call a row does not hold that metric's own bias"); break
                # a metric whose threshold depends on the month, validation and future periods with different calendars
                if ny >= 1:
                    start_f = r.choice(["2051-01-01", "2050-07-01", "2052-03-15"])
                    tf2 = times(T, start_f)
                    from ibicus.utils import month as _month
                    mo_v, mo_f = _month(t), _month(tf2)
                    thr_by_month = {mm: 9.0 + 0.5 * mm for mm in range(1, 13)}
                    mm_ = ThresholdMetric(threshold_value=thr_by_month, threshold_type="higher", threshold_scope="month", name="monthly")
                    pv = lambda a, mo: np.mean(a > np.array([thr_by_month[int(x)] for x in mo])[:, None, None], axis=0)
                    for tt_ in ("additive", "multiplicative"):
                        res.case(("trend-scoped", tt_, start_f))
                        tr = (lambda f_, v_: f_ - v_) if tt_ == "additive" else (lambda f_, v_: f_ / v_)
                        df = E.trend.calculate_future_trend_bias(raw_validate=raw_v, raw_future=raw_f, statistics=[], trend_type=tt_, metrics=[mm_], time_validate=t, time_future=tf2, bc=[bc_v, bc_f])
                        b_, r_ = tr(pv(bc_f, mo_f), pv(bc_v, mo_v)), tr(pv(raw_f, mo_f), pv(raw_v, mo_v))
                        with np.errstate(all="ignore"):
                            want = 100 * (b_ - r_) / r_
                        got = bias_of(df, "monthly")
                        ok_ = np.isfinite(want)
                        if not np.allclose(got[ok_], want[ok_]):
                            report("trend-bias-scoped-metric:" + tt_, dict(inp, future_start=start_f), None, "trend bias of a month-scoped metric: every probability must be taken with its own period's time axis")
                # trends
                for tt_ in ("additive", "multiplicative"):
                    res.case(("trend", tt_, X * Y > 1))
                    tr = (lambda f, v: f - v) if tt_ == "additive" else (lambda f, v: f / v)
                    df = E.trend.calculate_future_trend_bias(raw_validate=raw_v, raw_future=raw_f, statistics=["mean", 0.9], trend_type=tt_, metrics=[m], time_validate=t, time_future=tf, bc=[bc_v, bc_f])
                    def tb(fn):
                        b, rr = tr(fn(bc_f), fn(bc_v)), tr(fn(raw_f), fn(raw_v))
                        return 100 * (b - rr) / rr
                    if not np.allclose(bias_of(df, "Mean"), tb(lambda a: a.mean(0))):
                        report("trend-bias-mean:" + tt_, inp, None, "trend bias of the mean is not 100*(bc_trend-raw_trend)/raw_trend")
                    if not np.allclose(bias_of(df, "0.9 qn"), tb(lambda a: np.quantile(a, 0.9, 0))):
                        report("trend-bias-quantile:" + tt_, inp, None, "trend bias of the quantile wrong")
                    if not np.allclose(bias_of(df, "warm"), tb(lambda a: (a > 12).mean(0))):
                        report("trend-bias-metric:" + tt_, inp, None, "trend bias of the metric wrong (right datasets in every slot?)")
                    dfs = E.trend.calculate_future_trend_bias(raw_validate=raw_v, raw_future=raw_f, statistics=["mean", 0.5], trend_type=tt_, metrics=[m], time_validate=t, time_future=tf, bc=[raw_v.copy(), raw_f.copy()])
                    if any(np.any(np.abs(np.asarray(b, dtype=float)) > 1e-9) for b in dfs["Bias"].values):
                        report("self-trend-bias:" + tt_, inp, None, "a dataset evaluated against itself must have zero trend bias")
                    dft = E.trend.calculate_future_trend(statistics=["mean", 0.9], trend_type=tt_, metrics=[m], time_validate=t, time_future=tf, bc=[bc_v, bc_f])
                    if not np.allclose(bias_of(dft, "Mean"), tr(bc_f.mean(0), bc_v.mean(0))) or not np.allclose(bias_of(dft, "0.9 qn"), tr(np.quantile(bc_f, 0.9, 0), np.quantile(bc_v, 0.9, 0))) \
                       or not np.allclose(bias_of(dft, "warm"), tr((bc_f > 12).mean(0), (bc_v > 12).mean(0))):
                        report("trend:" + tt_, inp, None, "calculate_future_trend does not return the documented trend")
                    # the statistics in another order ("mean" not first, several quantiles): every row holds its own statistic
                    stats = r.choice([[0.1, 0.9, "mean"], [0.25, "mean", 0.75], [0.9, 0.1]])
                    dfo = E.trend.calculate_future_trend(statistics=stats, trend_type=tt_, metrics=[], time_validate=t, time_future=tf, bc=[bc_v, bc_f])
                    res.case(("trend-statistics-order", tt_, str(stats)))
                    for st_ in stats:
                        lab = "Mean" if st_ == "mean" else "%s qn" % st_
                        fn = (lambda a: a.mean(0)) if st_ == "mean" else (lambda a, q=st_: np.quantile(a, q, 0))
                        if not np.allclose(bias_of(dfo, lab), tr(fn(bc_f), fn(bc_v))):
                            report("trend-statistics-order:" + tt_, dict(inp, statistics=[str(x) for x in stats], row=lab), None, "calculate_future_trend: a row does not hold the trend of its own statistic when the statistics are given in another order"); break
                # conditional joint exceedance
                m2 = ThresholdMetric(threshold_value=11.0, threshold_type="higher", name="m2")
                chi = MV._calculate_chi(m, m2, obs.copy(), raw_v.copy())
                want = ((obs > 12) & (raw_v > 11)).sum(0) / (raw_v > 11).sum(0)
                res.case(("chi", X * Y > 1))
                if not np.allclose(chi, want):
                    report("chi", inp, None, "conditional exceedance is not P(m1 and m2)/P(m2)")
                if not np.allclose(MV._calculate_chi(m, m, obs.copy(), obs.copy()), 1.0):
                    report("chi-self", inp, None, "a metric conditioned on itself must have probability 1")
                # ... also when it is the very same metric object and the very same array, twice in a row, and the array is left alone
                keep = obs.copy()
                c1 = MV._calculate_chi(m, m, obs, obs); c2 = MV._calculate_chi(m, m, obs, obs)
                res.case(("chi-same-objects", X * Y > 1))
                if not (np.allclose(c1, 1.0) and np.allclose(c2, 1.0) and np.array_equal(obs, keep)):
                    report("chi-self:same-objects", inp, [float(np.min(c1)), float(np.min(c2)), bool(np.array_equal(obs, keep))], "a metric conditioned on itself (same metric object, same array object) must have probability 1 and leave the data unchanged")
            except Exception as e:
                report("exception:%s:%s" % (type(e).__name__, str(e)[:40]), inp, repr(e)[:300], "an evaluation function raised on well-formed datasets")

def replay(w):
    return True, "re-run ./check C20 (inputs are regenerated from the recorded seed)"
