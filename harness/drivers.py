"""Probe debiasers for the window drivers (real driver code, probe per-window method) and
correspondence batch K3 (Model/Driver.v vs the real apply_location of RunningWindowDebiaser,
DeltaChange, ISIMIP window mode, and the CDFt / QDM year loop)."""
import datetime, warnings, logging
import numpy as np
import attrs
from fractions import Fraction
from . import common as C
from .gridcommon import SENTINEL

def _probe(obs, hist, fut):
    return fut + 1000.0 * np.arange(len(fut)) + (obs.sum() - hist.sum())

def make(kind, L, S, Ly=None, Sy=None):
    """kind: rw | dc | isimip | cdft | qdm"""
    from ibicus.debias._running_window_debiaser import RunningWindowDebiaser
    import ibicus.debias as D, scipy.stats
    with warnings.catch_warnings():
        warnings.simplefilter("ignore")
        if kind == "rw":
            @attrs.define(slots=False)
            class P(RunningWindowDebiaser):
                @classmethod
                def from_variable(cls, v, **kw): return cls(**kw)
                def apply_on_window(self, obs, cm_hist, cm_future, **kw): return _probe(obs, cm_hist, cm_future)
            return P(running_window_mode=True, running_window_length=L, running_window_step_length=S)
        if kind == "dc":
            class P(D.DeltaChange):
                def _apply_on_within_year_window(self, obs, cm_hist, cm_future):
                    return obs + 1000.0 * np.arange(len(obs)) + (cm_future.sum() - cm_hist.sum())
            return P(delta_type="additive", running_window_mode=True, running_window_length=L, running_window_step_length=S)
        if kind == "isimip":
            class P(D.ISIMIP):
                def _apply_on_window(self, obs_hist, cm_hist, cm_future, **kw): return _probe(obs_hist, cm_hist, cm_future)
            return P.from_variable("tas", running_window_mode=True, running_window_length=L, running_window_step_length=S)
        if kind == "cdft":
            class P(D.CDFt):
                def _apply_debiasing_steps(self, obs, cm_hist, cm_future): return _probe(obs, cm_hist, cm_future)
            return P(running_window_mode=True, running_window_length=L, running_window_step_length=S,
                     running_window_mode_over_years_of_cm_future=True, running_window_over_years_of_cm_future_length=Ly,
                     running_window_over_years_of_cm_future_step_length=Sy)
    raise ValueError(kind)

def odd_up(v): return v + 1 if v % 2 == 0 else v

def dates(start, n):
    from ibicus.utils import create_array_of_consecutive_dates
    return create_array_of_consecutive_dates(n, np.datetime64(start))

def gen_case(r, kind, small=True):
    L0 = r.choice([1, 3, 5, 7, 9, 15, 31]); S0 = r.choice([s for s in [1, 3, 5, 7, 9, 15, 31] if s <= L0])
    if r.random() < 0.2: L0 += 1
    nF = r.choice([r.randint(1, 25), r.randint(25, 90)]) if small else r.randint(90, 800)
    nO = r.randint(max(40, nF // 2), 120) if small else r.randint(366, 800)
    nH = r.randint(max(40, nF // 2), 120) if small else r.randint(366, 800)
    sF = datetime.date(r.randint(1990, 2040), r.randint(1, 12), r.randint(1, 28))
    # calibration data around the same season (so that windows are not empty), whole years when large
    sO = datetime.date(sF.year - 30, sF.month, 1) - datetime.timedelta(days=r.randint(0, 20))
    sH = datetime.date(sF.year - 29, sF.month, 1) - datetime.timedelta(days=r.randint(0, 20))
    if kind == "cdft":
        nF = r.choice([r.randint(360, 500), r.randint(700, 1200)])
        nO, nH = r.randint(366, 500), r.randint(366, 500)
    elif r.random() < 0.2:
        # look-alike calendars: obs and cm_hist of equal length starting on the same calendar day, one of them
        # running over a 29 February (their day-of-year arrays agree at both ends of January/February only)
        ly = r.choice([1992, 1996, 2000, 2004]); mth = r.choice([1, 2]); dd = r.randint(1, 28)
        nO = nH = r.randint(70, 120) if small else r.randint(366, 800)
        sO = datetime.date(ly, mth, dd); sH = datetime.date(ly + r.choice([1, -1]), mth, dd)
        if r.random() < 0.5: sO, sH = sH, sO
        sF = datetime.date(sF.year, mth, r.randint(1, 28))
    val = lambda n: np.array([r.randint(-80, 80) / 8 for _ in range(n)])
    Ly = Sy = None
    if kind == "cdft":
        Ly = r.choice([1, 3, 5]); Sy = r.choice([s for s in [1, 3] if s <= Ly])
    return dict(kind=kind, L=L0, S=S0, Ly=Ly, Sy=Sy, start=[str(sO), str(sH), str(sF)], n=[nO, nH, nF],
                obs=val(nO), hist=val(nH), fut=val(nF))

def run_impl(case, perm=None):
    """returns (output array or None, exception)"""
    logging.getLogger("ibicus").setLevel(logging.CRITICAL)
    from ibicus.utils import day_of_year, year
    d = make(case["kind"], case["L"], case["S"], case["Ly"], case["Sy"])
    tO, tH, tF = [dates(s, n) for s, n in zip(case["start"], case["n"])]
    obs, hist, fut = case["obs"], case["hist"], case["fut"]
    if perm is not None:
        pO, pH, pF = perm
        obs, hist, fut, tO, tH, tF = obs[pO], hist[pH], fut[pF], tO[pO], tH[pH], tF[pF]
    with warnings.catch_warnings():
        warnings.simplefilter("ignore")
        try:
            out = d.apply_location(obs, hist, fut, time_obs=tO, time_cm_hist=tH, time_cm_future=tF)
        except Exception as e:
            return None, e, None
    doy = [day_of_year(t) for t in (tO, tH, tF)]
    yrs = [year(t) for t in (tO, tH, tF)]
    return out, None, (doy, yrs, d)

def series(a):
    return C.ql([Fraction(SENTINEL) if np.isnan(x) else Fraction(float(x)) for x in a])

def coq_case(case, out, aux):
    doy, yrs, d = aux
    L = d.running_window.window_length_in_days; S = d.running_window.window_step_length_in_days
    dO, dH, dF = [C.zl(x) for x in doy]
    impl = "None" if out is None else "(Some %s)" % series(out)
    if case["kind"] in ("rw", "isimip"):
        return "agree_series (run_rw %s %s %s %s %s %s %s %s) %s" % (C.z(L), C.z(S), dO, dH, dF, series(case["obs"]), series(case["hist"]), series(case["fut"]), impl)
    if case["kind"] == "dc":
        return "agree_series (run_dc %s %s %s %s %s %s %s %s) %s" % (C.z(L), C.z(S), dO, dH, dF, series(case["obs"]), series(case["hist"]), series(case["fut"]), impl)
    if case["kind"] == "cdft":
        ry = d.running_window_over_years_of_cm_future
        pair = lambda vals, ys: "[" + "; ".join("(%s, %s)" % (C.q(Fraction(float(v))), C.z(y)) for v, y in zip(vals, ys)) + "]"
        return "agree_series (run_rw_years %s %s %s %s %s %s %s %s %s %s) %s" % (
            C.z(L), C.z(S), C.z(ry.window_length_in_years), C.z(ry.window_step_length_in_years), dO, dH, dF,
            pair(case["obs"], yrs[0]), pair(case["hist"], yrs[1]), pair(case["fut"], yrs[2]), impl)
    raise ValueError(case["kind"])

def k3(res, tier, seed, tag="k3", n_quick=40, n_thorough=400):
    r = C.rng_for(seed, tag)
    n = n_quick if tier == "quick" else n_thorough
    cc = C.CoqCases(tag, ["NP", "QL", "GenWindows", "Grid", "Driver", "GridCorr", "DriverCorr", "CorrBase"], per_file=8)
    meta = []
    for i in range(n):
        kind = ["rw", "dc", "isimip", "rw", "cdft"][i % 5] if (tier != "quick" or i % 10 != 4) else "rw"
        case = gen_case(r, kind, small=(i % 4 != 3))
        out, err, aux = run_impl(case)
        if aux is None:
            res.broke("correspondence-error", "K3 implementation raised", dict(kind=kind, L=case["L"], S=case["S"], n=case["n"], start=case["start"], error=repr(err)[:300]))
            continue
        cc.add(coq_case(case, out, aux))
        m = dict(kind=kind, L=case["L"], S=case["S"], Ly=case["Ly"], Sy=case["Sy"], start=case["start"], n=case["n"])
        meta.append(m)
        res.case(("K3", kind, case["n"][2] > 366, case["L"] == case["S"], bool(np.any(np.isnan(out)))), sample=m if len(res.samples) < 5 else None)
    fails, errors = cc.run()
    res.components["K3 Model/Driver.v vs apply_location window loops"] = dict(cases=len(cc.cases), disagreements=len(fails), errors=len(errors))
    for e in errors[:3]:
        res.broke("correspondence-error", "K3", e)
    for i in fails[:5]:
        res.broke("correspondence", "K3 " + meta[i]["kind"], meta[i])


def k20(res, tier, seed, tag="k20"):
    """K20: Model/Driver.v months_driver vs the month loop of ISIMIP.apply_location (running_window_mode=False) with a probe
    step pipeline: series of 1..800 days, any start date, sub-annual series with months missing, look-alike calendars."""
    import ibicus.debias as D
    from ibicus.utils import month
    r = C.rng_for(seed, tag)
    n = 12 if tier == "quick" else 120
    cc = C.CoqCases(tag, ["NP", "QL", "Grid", "Driver", "GridCorr", "DriverCorr", "CorrBase"], per_file=6)
    meta = []
    class P(D.ISIMIP):
        def _apply_on_window(self, obs_hist, cm_hist, cm_future, **kw): return _probe(obs_hist, cm_hist, cm_future)
    with warnings.catch_warnings():
        warnings.simplefilter("ignore")
        d = P.from_variable("tas", running_window_mode=False)
    for i in range(n):
        case = gen_case(r, "isimip", small=(i % 3 != 2))
        tO, tH, tF = [dates(s_, n_) for s_, n_ in zip(case["start"], case["n"])]
        with warnings.catch_warnings():
            warnings.simplefilter("ignore")
            try:
                out = d.apply_location(case["obs"], case["hist"], case["fut"], time_obs=tO, time_cm_hist=tH, time_cm_future=tF)
            except Exception as e:
                res.broke("correspondence-error", "K20 implementation raised", dict(start=case["start"], n=case["n"], error=repr(e)[:300])); continue
        cc.add("agree_series (run_months %s %s %s %s %s %s) (Some %s)" % (C.zl(month(tO)), C.zl(month(tH)), C.zl(month(tF)), series(case["obs"]), series(case["hist"]), series(case["fut"]), series(out)))
        m = dict(kind="isimip-months", start=case["start"], n=case["n"])
        meta.append(m); res.case(("K20", case["n"][2] > 366, len(set(month(tF))) < 12), sample=m if len(res.samples) < 5 else None)
    fails, errors = cc.run()
    res.components["K20 Model/Driver.v months_driver vs ISIMIP.apply_location month loop"] = dict(cases=len(cc.cases), disagreements=len(fails), errors=len(errors))
    for e in errors[:3]:
        res.broke("correspondence-error", "K20", e)
    for i in fails[:5]:
        res.broke("correspondence", "K20 isimip-months", meta[i])
