"""C13 — failsafe mode isolates failing locations.
Tie: hand model Model/Grid.v; correspondence K8 with failing cells: all 2^(x*y) subsets of failing
cells of small grids x serial / Pool x failsafe on/off on probe debiasers (user-raised failure) vs the
model; search: built-in failures (NaN rejected by a distribution fit) and user failures on real runs."""
import warnings, logging
import numpy as np
from . import common as C
from . import gridcommon as G
from . import c05

GEN_FILES = []
TRUSTED = c05.TRUSTED

def correspondence(res, tier, seed):
    c05.correspondence(res, tier, seed, with_failures=True, name="c13")

def search(res, tier, seed, deep=False):
    logging.getLogger("ibicus").setLevel(logging.CRITICAL)
    r = C.rng_for(seed, "c13-search")
    seen = set()
    def report(cls_, inp, obs, stmt):
        if cls_ in seen: return
        seen.add(cls_)
        res.witness(dict(component="Debiaser.apply(failsafe)", statement=stmt, input=inp, observed=obs, expected="C13", **{"class": cls_}))
    import ibicus.debias as D, scipy.stats
    # built-in failure: NaN in one cell's obs is rejected by scipy's norm.fit (ECDFM / parametric QM / QDM)
    builders = {
        "ECDFM": lambda: D.ECDFM.from_variable("tas", distribution=scipy.stats.norm),
        "QuantileMapping": lambda: D.QuantileMapping.from_variable("tas"),
        "QuantileDeltaMapping": lambda: D.QuantileDeltaMapping.from_variable("tas", running_window_mode=False, running_window_mode_over_years_of_cm_future=False),
    }
    grids = [(2, 2)] if tier == "quick" else [(2, 2), (1, 3), (2, 3), (3, 3)]
    for name, mk in builders.items():
        with warnings.catch_warnings():
            warnings.simplefilter("ignore")
            d = mk()
        for (X, Y) in grids:
            obs, hist, fut, tk = c05.real_data(r, X, Y, n=(200, 190, 210))
            clean, err = G.run_apply(d, obs, hist, fut, **tk)
            cells = [(i, j) for i in range(X) for j in range(Y)]
            subsets = [tuple(c for k, c in enumerate(cells) if (m >> k) & 1) for m in range(1, 2 ** (X * Y))]
            if tier == "quick":
                r.shuffle(subsets); subsets = subsets[:4]
            elif len(subsets) > 40:
                r.shuffle(subsets); subsets = subsets[:40]
            for F in subsets:
                o2 = obs.copy()
                for (i, j) in F:
                    o2[5, i, j] = np.nan
                inp = dict(debiaser=name, shape=[X, Y], failing=[list(c) for c in F], seed=seed)
                for parallel in ((False, True) if (tier != "quick" or F == subsets[0]) else (False,)):
                    out, err = G.run_apply(d, o2, hist, fut, failsafe=True, parallel=parallel, nr_processes=2, **tk)
                    res.case(("builtin", name, len(F) == X * Y, parallel))
                    if out is None:
                        report("failsafe-raised:" + name, inp, repr(err)[:200], "failsafe=True must not propagate a location failure"); continue
                    for (i, j) in cells:
                        if (i, j) in F:
                            if not np.all(np.isnan(out[:, i, j])):
                                report("failing-cell-not-nan:" + name, dict(inp, cell=[i, j]), None, "a failing cell must be NaN for the whole cell")
                        elif clean is not None and not np.array_equal(out[:, i, j], clean[:, i, j]):
                            report("other-cell-changed:" + name, dict(inp, cell=[i, j]), float(np.nanmax(np.abs(out[:, i, j] - clean[:, i, j]))),
                                   "a cell that did not fail differs from the run in which nothing failed")
                    out2, err2 = G.run_apply(d, o2, hist, fut, failsafe=False, parallel=parallel, nr_processes=2, **tk)
                    if out2 is not None:
                        report("nofailsafe-returned:" + name, inp, None, "failsafe=False must propagate the failure; an array was returned")

def replay(w):
    return True, "re-run ./check C13 (inputs are regenerated from the recorded seed)"
