"""C13 — failsafe mode isolates failing locations.
Tie: hand model Model/Grid.v; correspondence K8 with failing cells: all 2^(x*y) subsets of failing
cells of small grids x serial / Pool x failsafe on/off on probe debiasers (user-raised failure) vs the
model; search: built-in failures (NaN rejected by a distribution fit) and user failures on real runs."""
import warnings, logging
import numpy as np
from . import common as C
from . import gridcommon as G
from . import c05

GEN_FILES = []
TRUSTED = c05.TRUSTED

def correspondence(res, tier, seed):
    c05.correspondence(res, tier, seed, with_failures=True, name="c13")

def search(res, tier, seed, deep=False):
    logging.getLogger("ibicus").setLevel(logging.CRITICAL)
    r = C.rng_for(seed, "c13-search")
    seen = set()
    def report(cls_, inp, obs, stmt):
        if cls_ in seen: return
        seen.add(cls_)
        res.witness(dict(component="Debiaser.apply(failsafe)", statement=stmt, input=inp, observed=obs, expected="C13", **{"class": cls_}))
    import ibicus.debias as D, scipy.stats
    # built-in failure: NaN in one cell's obs is rejected by scipy's norm.fit (ECDFM / parametric QM / QDM)
    builders = {
        "ECDFM": lambda: D.ECDFM.from_variable("tas", distribution=scipy.stats.norm),
        "QuantileMapping": lambda: D.QuantileMapping.from_variable("tas"),
        "QuantileDeltaMapping": lambda: D.QuantileDeltaMapping.from_variable("tas", running_window_mode=False, running_window_mode_over_years_of_cm_future=False),
    }
    grids = [(2, 2)] if tier == "quick" else [(2, 2), (1, 3), (2, 3), (3, 3)]
    for name, mk in builders.items():
        with warnings.catch_warnings():
            warnings.simplefilter("ignore")
            d = mk()
        for (X, Y) in grids:
            obs, hist, fut, tk = c05.real_data(r, X, Y, n=(200, 190, 210))
            clean, err = G.run_apply(d, obs, hist, fut, **tk)
            cells = [(i, j) for i in range(X) for j in range(Y)]
            subsets = [tuple(c for k, c in enumerate(cells) if (m >> k) & 1) for m in range(1, 2 ** (X * Y))]
            if tier == "quick":
                r.shuffle(subsets); subsets = subsets[:4]
            elif len(subsets) > 40:
                r.shuffle(subsets); subsets = subsets[:40]
            for F in subsets:
                # the non-finite data that makes the fit fail: one NaN or a whole NaN column, in any of the three series
                how = r.choice(["obs-one", "obs-column", "cm_hist-one", "cm_future-column", "cm_future-one"])
                o2, h2, f2 = obs.copy(), hist.copy(), fut.copy()
                tgt = {"obs": o2, "cm_hist": h2, "cm_future": f2}[how.split("-")[0]]
                for (i, j) in F:
                    if how.endswith("one"): tgt[5, i, j] = np.nan
                    else: tgt[:, i, j] = np.nan
                # which of the marked cells really fail is decided by the per-location method itself
                expect = {}
                for (i, j) in cells:
                    if (i, j) in F:
                        try:
                            with warnings.catch_warnings():
                                warnings.simplefilter("ignore")
                                expect[(i, j)] = d.apply_location(o2[:, i, j], h2[:, i, j], f2[:, i, j], **tk)
                        except Exception:
                            expect[(i, j)] = None
                    else:
                        expect[(i, j)] = clean[:, i, j] if clean is not None else None
                Fa = [c for c in F if expect[c] is None]
                res.count("marked-cells-that-really-fail", len(Fa)); res.count("marked-cells-that-do-not-fail", len(F) - len(Fa))
                inp = dict(debiaser=name, shape=[X, Y], failing=[list(c) for c in Fa], marked=[list(c) for c in F], non_finite=how, seed=seed)
                for parallel in ((False, True) if (tier != "quick" or F == subsets[0]) else (False,)):
                    out, err = G.run_apply(d, o2, h2, f2, failsafe=True, parallel=parallel, nr_processes=2, **tk)
                    res.case(("builtin", name, how, len(Fa) == X * Y, parallel))
                    if out is None:
                        report("failsafe-raised:" + name, inp, repr(err)[:200], "failsafe=True must not propagate a location failure"); continue
                    for (i, j) in cells:
                        if (i, j) in Fa:
                            if not np.all(np.isnan(out[:, i, j])):
                                report("failing-cell-not-nan:" + name, dict(inp, cell=[i, j]), None, "a failing cell must be NaN for the whole cell")
                        elif expect[(i, j)] is not None and not np.array_equal(out[:, i, j], expect[(i, j)], equal_nan=True):
                            report("other-cell-changed:" + name, dict(inp, cell=[i, j]), None,
                                   "a cell that did not fail differs from the run in which nothing failed")
                    out2, err2 = G.run_apply(d, o2, h2, f2, failsafe=False, parallel=parallel, nr_processes=2, **tk)
                    if Fa and out2 is not None:
                        report("nofailsafe-returned:" + name, inp, None, "failsafe=False must propagate the failure; an array was returned")
                    if not Fa and out2 is None:
                        report("nofailsafe-raised-without-failure:" + name, inp, repr(err2)[:200], "no location fails but apply raised")

    # failures raised by a user-defined debiaser: whatever Exception class it raises is isolated
    for marker, exc in sorted(G.EXC.items()):
        for kind in (("ls", "dc") if tier != "quick" else (("ls",) if marker % 2 else ("dc",))):
            X, Y = r.choice([(2, 2), (1, 3), (3, 1)])
            cells = [(i, j) for i in range(X) for j in range(Y)]
            F = [c for c in cells if r.random() < 0.4] or [cells[0]]
            obs0 = G.rand_grid(r, 3, X, Y); hist, fut = G.rand_grid(r, 3, X, Y), G.rand_grid(r, 4, X, Y)
            obs = obs0.copy()
            for (i, j) in F: obs[0, i, j] = marker
            inp = dict(debiaser="probe-" + kind, raises=exc.__name__, shape=[X, Y], failing=[list(c) for c in F], seed=seed)
            for parallel in (False, True):
                d = G.make_probe(kind)
                clean, _ = G.run_apply(d, obs0, hist, fut, parallel=parallel, nr_processes=2)
                out, err = G.run_apply(d, obs, hist, fut, failsafe=True, parallel=parallel, nr_processes=2)
                res.case(("probe", kind, exc.__name__, parallel))
                if out is None:
                    report("failsafe-raised:probe:" + exc.__name__, dict(inp, parallel=parallel), repr(err)[:200], "failsafe=True must not propagate a location failure"); continue
                for (i, j) in cells:
                    if (i, j) in F:
                        if not np.all(np.isnan(out[:, i, j])):
                            report("failing-cell-not-nan:probe", dict(inp, cell=[i, j], parallel=parallel), None, "a failing cell must be NaN for the whole cell")
                    elif kind == "ls" and clean is not None and not np.array_equal(out[:, i, j], clean[:, i, j]):
                        report("other-cell-changed:probe", dict(inp, cell=[i, j], parallel=parallel), None, "a cell that did not fail differs from the run in which nothing failed")
                out2, err2 = G.run_apply(d, obs, hist, fut, failsafe=False, parallel=parallel, nr_processes=2)
                if out2 is not None:
                    report("nofailsafe-returned:probe", dict(inp, parallel=parallel), None, "failsafe=False must propagate the failure; an array was returned")
                elif type(err2) is not exc and not parallel:
                    report("nofailsafe-wrong-exception:probe", dict(inp, parallel=parallel), repr(err2)[:200], "failsafe=False must propagate the failure that occurred")

def replay(w):
    return True, "re-run ./check C13 (inputs are regenerated from the recorded seed)"
