"""C17 — precipitation statistical models are coherent.
Tie: translator (Gen/GenPrecip.v: hurdle fit/cdf/ppf and left-censored cdf/ppf regenerated from utils/_math_utils.py)
+ hand model of the ignore-zeros sentinel; correspondence K7: regenerated wrappers vs the real classes (the amounts
distribution's values are supplied as an oracle, numpy's uniform draws recorded in the harness process);
search: round trip / dry-stays-dry / range / monotonicity / dry probability on the real models with SciPy's gamma."""
import warnings
import numpy as np
from fractions import Fraction
from . import common as C

GEN_FILES = ["GenPrecip"]
TRUSTED = ["C17: the censored-gamma maximum-likelihood fit (Nelder-Mead) and SciPy's gamma cdf/ppf are parameters of the model (every theorem is for all fitted parameters / any distribution inverted by its ppf)",
           "C17: numpy.random.uniform(low, high) = low + (high-low)*u with u in [0,1) (recorded in the harness process)"]

class Rec:
    """records the uniform draws of numpy.random.uniform in this process"""
    def __enter__(self):
        self.us = []
        self.orig = np.random.uniform
        def uni(low=0.0, high=1.0, size=None):
            u = np.random.random_sample(size)
            self.us.append(np.atleast_1d(u).copy())
            return low + (high - low) * u
        np.random.uniform = uni
        return self
    def __exit__(self, *a):
        np.random.uniform = self.orig

def correspondence(res, tier, seed):
    import scipy.stats
    from ibicus.utils import gen_PrecipitationHurdleModel, gen_PrecipitationGammaLeftCensoredModel
    r = C.rng_for(seed, "c17-corr")
    n = 60 if tier == "quick" else 600
    cc = C.CoqCases("c17", ["QL", "XQ", "Dist", "GenPrecip", "PrecipCorr", "CorrBase"], per_file=200)
    meta = []
    def add(e, m, key):
        cc.add(e); meta.append(m); res.case(key, sample=m if len(res.samples) < 4 else None)
    B = lambda b: "true" if b else "false"
    for i in range(n):
        rs = np.random.RandomState(r.randint(0, 10 ** 6))
        rand = bool(i % 2)
        m = gen_PrecipitationHurdleModel(cdf_randomization=rand)
        data = np.where(rs.rand(40) < r.choice([0.1, 0.5, 0.8]), 0.0, np.round(rs.gamma(0.9, 4.0, 40) * 64 + 1) / 64)
        if len(set(data[data > 0])) < 3:
            # fewer than three distinct wet values: SciPy's gamma fit has nothing to fit (it raises on a single / constant wet
            # sample); outside "enough wet values to fit a distribution" -- counted, not a case
            res.count("degenerate-wet-sample-skipped"); continue
        p0, fr = m.fit(data)
        # fit: dry probability
        add("close (fst (hurdle_fit (const_dist 0 0) %s)) %s (1#1000000000000)" % (C.ql([Fraction(float(v)) for v in data]), C.q(p0)),
            dict(func="hurdle.fit", zeros=int((data == 0).sum()), n=len(data), impl=float(p0)), ("hurdle-fit", int((data == 0).sum()) > 20))
        xs = np.array([0.0, float(data[data > 0][0]), 0.0, float(data.max()), 1 / 64])
        with Rec() as rec:
            np.random.seed(i)
            cv = m.cdf(xs, p0, fr)
        us = rec.us[0] if rec.us else np.zeros(len(xs))
        for x, c, u in zip(xs, cv, us):
            A = scipy.stats.gamma.cdf(x, *fr)
            add("close (hurdle_cdf (const_dist %s 0) %s %s %s tt %s) %s (1#1000000000000)" % (C.q(A), B(rand), C.q(x), C.q(p0), C.q(u), C.q(c)),
                dict(func="hurdle.cdf", x=float(x), rand=rand, impl=float(c)), ("hurdle-cdf", rand, x == 0))
        qs = np.array([0.0, float(p0), min(1.0, float(p0) + 1 / 64), 0.75, 1 - 1 / 1024] + [float(c) for c in cv[:2]])
        pv = m.ppf(qs, p0, fr)
        for q, v in zip(qs, pv):
            if q > p0:
                arg = (q - p0) / (1 - p0); Bv = scipy.stats.gamma.ppf(arg, *fr)
            else:
                Bv = 0.0
            add("close (hurdle_ppf (const_dist 0 %s) %s %s tt) %s %s" % (C.q(Bv), C.q(q), C.q(p0), C.q(v), C.q(C.tol_for(v))),
                dict(func="hurdle.ppf", q=float(q), p0=float(p0), impl=float(v)), ("hurdle-ppf", q > p0))
        # censored model
        thr = r.choice([0.05, 0.1, 0.5]); cin = bool(i % 3)
        cm = gen_PrecipitationGammaLeftCensoredModel(censoring_threshold=thr, censor_in_ppf=cin)
        gfit = (r.choice([0.6, 1.0, 2.5]), 0, r.choice([0.5, 3.0]))
        xs = np.array([0.0, thr / 2, thr, thr * 1.5, 7.0])
        with Rec() as rec:
            np.random.seed(i)
            cv = cm.cdf(xs, *gfit)
        us = rec.us[0]
        for x, c, u in zip(xs, cv, us):
            x2 = u * thr if x < thr else x
            A = scipy.stats.gamma.cdf(x2, *gfit)
            add("close (censored_cdf %s %s tt (const_dist %s 0) %s) %s (1#1000000000000)" % (C.q(thr), C.q(x), C.q(A), C.q(u), C.q(c)),
                dict(func="censored.cdf", x=float(x), thr=thr, impl=float(c)), ("cens-cdf", x < thr))
        qs = np.array([1e-6, 0.01, 0.3, 0.9])
        pv = cm.ppf(qs, *gfit)
        for q, v in zip(qs, pv):
            Bv = scipy.stats.gamma.ppf(q, *gfit)
            add("close (censored_ppf %s %s %s tt (const_dist 0 %s)) %s %s" % (C.q(thr), B(cin), C.q(q), C.q(Bv), C.q(v), C.q(C.tol_for(v))),
                dict(func="censored.ppf", q=float(q), thr=thr, censor_in_ppf=cin, impl=float(v)), ("cens-ppf", cin, Bv < thr))
        # ignore-zeros model: exact zeros, ordinary amounts and very small amounts (flux units: mm/day / 86400)
        from ibicus.utils import gen_PrecipitationIgnoreZeroValuesModel
        iz = gen_PrecipitationIgnoreZeroValuesModel()
        gfit = (r.choice([0.6, 1.0, 2.5]), 0, r.choice([1e-5, 0.5, 3.0]))
        xs = np.array([0.0, 2.0 ** -r.randint(30, 60), 1e-9, 3e-7, float(r.randint(1, 640)) / 64, 0.0])
        cv = iz.cdf(xs, *gfit)
        for x, c in zip(xs, cv):
            A = scipy.stats.gamma.cdf(x, *gfit)
            want = "XQ.NInf" if np.isneginf(c) else "(XQ.Fin %s)" % C.q(c)
            add("xq_close (ignorezeros_cdf (const_dist %s 0) %s tt) %s" % (C.q(A), C.q(x), want),
                dict(func="ignorezeros.cdf", x=float(x), impl=float(c)), ("iz-cdf", x == 0, x < 1e-8))
        for q in [-np.inf, 0.25, float(cv[1]), 0.999]:
            v = float(iz.ppf(np.array([q]), *gfit)[0])
            Bv = 0.0 if np.isneginf(q) else float(scipy.stats.gamma.ppf(q, *gfit))
            qq = "XQ.NInf" if np.isneginf(q) else "(XQ.Fin %s)" % C.q(q)
            add("close (ignorezeros_ppf (const_dist 0 %s) %s tt) %s %s" % (C.q(Bv), qq, C.q(v), C.q(C.tol_for(v))),
                dict(func="ignorezeros.ppf", q=float(q), impl=v), ("iz-ppf", bool(np.isneginf(q))))
    fails, errors = cc.run()
    res.components["K7 Gen/GenPrecip.v vs gen_PrecipitationHurdleModel / gen_PrecipitationGammaLeftCensoredModel / gen_PrecipitationIgnoreZeroValuesModel"] = dict(cases=len(cc.cases), disagreements=len(fails), errors=len(errors))
    for e in errors[:3]:
        res.broke("correspondence-error", "K7", e)
    for i in fails[:5]:
        res.broke("correspondence", "K7 " + meta[i]["func"], meta[i])
    res.rule = ("zero-inflated samples (dry fraction 0.1/0.5/0.8), cdf randomisation on/off with recorded draws, evaluation at zeros, wet values, "
                "p0 and its neighbours; censoring thresholds 0.05/0.1/0.5, censor_in_ppf on/off; distinct/non-trivial = distinct (function, option, branch) classes")

def search(res, tier, seed, deep=False):
    import scipy.stats
    from ibicus.utils import gen_PrecipitationHurdleModel, gen_PrecipitationGammaLeftCensoredModel, gen_PrecipitationIgnoreZeroValuesModel
    from ibicus.variables import map_standard_precipitation_method
    r = C.rng_for(seed, "c17-search")
    seen = set()
    def report(cls_, inp, obs, stmt):
        if cls_ in seen: return
        seen.add(cls_)
        res.witness(dict(component="ibicus.utils precipitation models", statement=stmt, input=inp, observed=obs, expected="C17", **{"class": cls_}))
    n = 30 if tier == "quick" else 300
    with warnings.catch_warnings():
        warnings.simplefilter("ignore")
        for i in range(n):
            rs = np.random.RandomState(r.randint(0, 10 ** 6))
            dry = r.choice([0.05, 0.3, 0.6, 0.9]); shape = r.choice([0.5, 1.0, 3.0]); scale = r.choice([0.2, 2.0, 20.0])
            N = r.choice([60, 400])
            if i % 10 == 9: N = r.choice([25000, 45000])      # a long record now and then (a century of daily values)
            data = np.where(rs.rand(N) < dry, 0.0, rs.gamma(shape, scale, N) + 1e-3)
            if (data > 0).sum() < 10 or (data == 0).sum() < 1: continue
            wet = np.sort(data[data > 0]); inp = dict(dry=dry, shape=shape, scale=scale, n=N, seed=seed, i=i)
            for rand in (True, False, "floc"):
                if rand == "floc":
                    # an amounts distribution with a non-zero location (all wet values exceed it): dry values still come back as 0
                    floc = float(wet[0]) * 0.5
                    m = gen_PrecipitationHurdleModel(cdf_randomization=False, fit_kwds={"floc": floc}); rand = False
                else:
                    m = gen_PrecipitationHurdleModel(cdf_randomization=rand)
                fit = m.fit(data)
                res.case(("hurdle", rand, dry))
                if abs(fit[0] - (data == 0).mean()) > 1e-12:
                    report("hurdle-p0", inp, float(fit[0]), "fitted dry probability differs from the observed fraction of zeros")
                np.random.seed(i)
                c = m.cdf(data, *fit)
                if np.any(c < -1e-15) or np.any(c > 1 + 1e-15) or np.any(~np.isfinite(c)):
                    report("hurdle-cdf-range", inp, None, "hurdle cdf outside [0,1]")
                if np.any(c[data > 0] < fit[0] - 1e-15):
                    report("hurdle-wet-below-p0", inp, None, "a wet value received a cdf value below the dry probability")
                cw = m.cdf(wet, *fit)
                if np.any(np.diff(cw) < -1e-15):
                    report("hurdle-cdf-monotone", inp, None, "hurdle cdf decreasing over wet values")
                back = m.ppf(c, *fit)
                if np.any(back[data == 0] != 0):
                    report("hurdle-dry-not-zero", inp, None, "a dry value did not come back as exactly 0")
                ok = (c[data > 0] > fit[0] + 1e-12) & (c[data > 0] < 1 - 1e-12)
                if np.any(np.abs(back[data > 0][ok] - data[data > 0][ok]) > 1e-6 * np.maximum(1, data[data > 0][ok])):
                    report("hurdle-roundtrip", inp, None, "ppf(cdf(x)) != x for wet values")
            iz = gen_PrecipitationIgnoreZeroValuesModel()
            # flux units now and then: the same amounts divided by 86400, light drizzle down to 1e-10
            if i % 3 == 2:
                data = np.where(data > 0, data / 86400.0 * rs.choice([1.0, 1e-3, 1e-5], size=data.shape), 0.0)
                wet = np.sort(data[data > 0])
            fit = iz.fit(data)
            c = iz.cdf(data, *fit)
            res.case(("ignore-zeros", dry))
            if not np.all(np.isneginf(c[data == 0])) or np.any(c[data > 0] < 0) or np.any(c[data > 0] > 1):
                report("ignorezeros-cdf", inp, None, "ignore-zeros cdf: zeros must map to -inf, wet values into [0,1]")
            back = iz.ppf(c, *fit)
            okw = (c[data > 0] > 1e-12) & (c[data > 0] < 1 - 1e-8)
            if np.any(back[data == 0] != 0) or np.any(np.abs(back[data > 0][okw] - data[data > 0][okw]) > 1e-5 * data[data > 0][okw]):
                report("ignorezeros-roundtrip", inp, None, "ignore-zeros model: dry must stay 0 and wet values round-trip")
            # single-precision records: the model works in double precision whatever the storage type
            d32 = data.astype(np.float32); fit32 = iz.fit(d32); c32 = np.asarray(iz.cdf(d32, *fit32)); b32 = np.asarray(iz.ppf(c32, *fit32), dtype=float)
            res.case(("ignore-zeros-float32", dry))
            w32 = d32 > 0
            ok32 = w32 & (c32 > 1e-12) & (c32 < 1 - 1e-8)
            if np.any(c32[w32] > 1) or not np.all(np.isfinite(b32[w32])) or np.any(np.abs(b32[ok32] - d32[ok32].astype(float)) > 1e-5 * d32[ok32].astype(float)):
                report("ignorezeros-roundtrip:float32", inp, dict(dtype_of_cdf=str(c32.dtype), infinite=int(np.sum(~np.isfinite(b32[w32])))), "ignore-zeros model on single-precision data: wet values must round-trip (finite, within 1e-5 relative)")
            thr = float(np.quantile(wet, 0.2))
            cmod = gen_PrecipitationGammaLeftCensoredModel(censoring_threshold=thr, censor_in_ppf=True)
            gfit = (shape, 0, scale)
            np.random.seed(i)
            c = cmod.cdf(data, *gfit)
            back = cmod.ppf(c, *gfit)
            res.case(("censored", dry))
            above = data >= thr
            # a value within rounding error of the threshold may legitimately round-trip to just below it
            # (gamma.ppf(gamma.cdf(x)) is x only up to rounding) and is then censored: excluded, counted
            near = np.abs(data - thr) <= 1e-9 * max(1.0, abs(thr))
            res.count("censored-at-threshold-skipped", int(near.sum()))
            okc = above & ~near & (c > 1e-12) & (c < 1 - 1e-12)
            if np.any(back[~above] != 0):
                report("censored-dry-not-zero", inp, None, "a value below the censoring threshold did not come back as exactly 0")
            if np.any(np.abs(back[okc] - data[okc]) > 1e-6 * np.maximum(1, data[okc])):
                report("censored-roundtrip", inp, None, "censored model: ppf(cdf(x)) != x above the threshold")
            if np.any(c < 0) or np.any(c > 1) or np.any(np.diff(cmod.cdf(wet[wet >= thr], *gfit)) < -1e-15):
                report("censored-cdf", inp, None, "censored cdf outside [0,1] or decreasing over wet values")
    # factory
    res.case(("factory",))
    try:
        a = map_standard_precipitation_method("censored", censoring_threshold=0.2); b = map_standard_precipitation_method("hurdle", hurdle_model_randomization=False); c = map_standard_precipitation_method("ignore_zeros")
        ok = isinstance(a, gen_PrecipitationGammaLeftCensoredModel) and a.censoring_threshold == 0.2 and isinstance(b, gen_PrecipitationHurdleModel) and b.cdf_randomization is False and isinstance(c, gen_PrecipitationIgnoreZeroValuesModel)
    except Exception as e:
        ok = False
    bad = 0
    for args in (dict(model_type="censored", amounts_distribution=scipy.stats.norm), dict(model_type="censored", censoring_threshold=-1.0), dict(model_type="nonsense")):
        try:
            map_standard_precipitation_method(**args)
        except ValueError:
            bad += 1
        except Exception:
            pass
    if not ok or bad != 3:
        report("factory", dict(), dict(ok=ok, rejected=bad), "map_standard_precipitation_method does not return the documented model / reject invalid options")

def replay(w):
    return True, "re-run ./check C17 (inputs are regenerated from the recorded seed)"
