"""C04 — unit-change equivariance for unbounded variables.
Tie: translator (Gen/GenScalars.v) + correspondence K5; search: apply_location(a*obs+b, a*cm_hist+b, a*cm_future+b)
== a*apply_location(obs, cm_hist, cm_future)+b on all eight real debiasers with their tas settings, windows on/off;
pure rescaling for multiplicative LinearScaling / DeltaChange."""
import numpy as np
from . import common as C
from . import debiasers, realruns as R

GEN_FILES = ["GenScalars", "GenUtils", "GenConfig", "GenIsimip"]
TRUSTED = ["C04: affine equivariance of ScaledDistributionMapping, CDFt, QDM and ISIMIP (tas: infinite bounds => no bound logic, extracted settings) is searched on the implementation, not proved",
           "C04: SciPy's norm.fit is affine-equivariant (assumption about SciPy, exercised by the search)"]

def correspondence(res, tier, seed):
    debiasers.k5(res, tier, seed, tag="k5c04")
    res.rule = ("K5 as for C03; search: eight debiasers (tas settings, ECDFM with a normal distribution) x window mode x (a,b) in "
                "{(9/5,32), (1,-273.15), (0.01,0), (1000,5)}; multiplicative LS/DC with b=0; distinct/non-trivial = distinct (debiaser, window mode, map) classes")

MAPS = [(9 / 5, 32.0), (1.0, -273.15), (0.01, 0.0), (1000.0, 5.0)]

def search(res, tier, seed, deep=False):
    r = C.rng_for(seed, "c04-search")
    seen = set()
    def report(cls_, inp, obs, stmt):
        if cls_ in seen: return
        seen.add(cls_)
        res.witness(dict(component="apply_location under a change of units", statement=stmt, input=inp, observed=obs, expected="C04", **{"class": cls_}))
    rounds = 1 if tier == "quick" else 4
    for rnd in range(rounds):
        for name in R.ALL:
            modes = ["none", "days"] + (["years"] if name in ("CDFt", "QuantileDeltaMapping") else [])
            if tier == "quick": modes = [modes[(rnd + len(name)) % len(modes)]]
            for mode in modes:
                d = R.build(name, "tas", mode, r)
                rs = np.random.RandomState(r.randint(0, 10 ** 6))
                nO, nH, nF = r.randint(730, 800), r.randint(730, 800), r.randint(730, 1100)
                obs, hist, fut = R.series(rs, nO), R.series(rs, nH, "tas", 1.5, 1.3), R.series(rs, nF, "tas", 3.0, 1.1)
                tO, tH, tF = R.times(nO, "1980-01-01"), R.times(nH, "1980-01-01"), R.times(nF, "2040-01-01")
                base = R.run(d, obs, hist, fut, tO, tH, tF)
                for (a, b) in (MAPS if tier != "quick" else [MAPS[rnd % 4], MAPS[(rnd + 1) % 4]]):
                    out = R.run(d, a * obs + b, a * hist + b, a * fut + b, tO, tH, tF)
                    want = a * base + b
                    scale = max(float(np.max(np.abs(want))), abs(a) * 10)
                    err = float(np.max(np.abs(out - want))) / scale
                    res.case(("c04", name, mode, a))
                    if not (err <= 1e-7):
                        report("not-unit-equivariant:" + name, dict(debiaser=name, window_mode=mode, a=a, b=b, seed=seed), err,
                               "expressing the three series in another unit does not change the output by the same map")
        for name in ("LinearScaling", "DeltaChange"):
            d = R.build(name, "pr", "none")
            rs = np.random.RandomState(r.randint(0, 10 ** 6))
            obs, hist, fut = R.series(rs, 500, "pr"), R.series(rs, 500, "pr", scale=1.4), R.series(rs, 600, "pr", scale=1.2)
            t = R.times(600, "1980-01-01")
            base = R.run(d, obs, hist, fut, t[:500], t[:500], t)
            for a in (86400.0, 0.001):
                out = R.run(d, a * obs, a * hist, a * fut, t[:500], t[:500], t)
                err = float(np.max(np.abs(out - a * base))) / max(1e-300, float(np.max(np.abs(a * base))))
                res.case(("c04-mult", name, a))
                if not (err <= 1e-9):
                    report("not-rescaling-equivariant:" + name, dict(debiaser=name, a=a, seed=seed), err, "multiplicative configuration is not equivariant under pure rescaling")

def replay(w):
    return True, "re-run ./check C04 (inputs are regenerated from the recorded seed)"
