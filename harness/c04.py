"""C04 — unit-change equivariance for unbounded variables.
Tie: translator (Gen/GenScalars.v) + correspondence K5; search: apply_location(a*obs+b, a*cm_hist+b, a*cm_future+b)
== a*apply_location(obs, cm_hist, cm_future)+b on all eight real debiasers with their tas settings, windows on/off;
pure rescaling for multiplicative LinearScaling / DeltaChange."""
import numpy as np
from . import common as C
from . import debiasers, realruns as R

GEN_FILES = ["GenScalars", "GenUtils", "GenConfig", "GenIsimip"]
TRUSTED = ["C04: affine equivariance of ScaledDistributionMapping, CDFt, QDM and ISIMIP (tas: infinite bounds => no bound logic, extracted settings) is searched on the implementation, not proved",
           "C04: SciPy's norm.fit is affine-equivariant (assumption about SciPy, exercised by the search)"]

def correspondence(res, tier, seed):
    debiasers.k5(res, tier, seed, tag="k5c04")
    res.rule = ("K5 as for C03; search: eight debiasers (tas settings, ECDFM with a normal distribution) x window mode x (a,b) in "
                "{(9/5,32), (1,-273.15), (0.01,0), (1000,5)}; multiplicative LS/DC with b=0; distinct/non-trivial = distinct (debiaser, window mode, map) classes")

MAPS = [(9 / 5, 32.0), (1.0, -273.15), (0.01, 0.0), (1000.0, 5.0)]

def search(res, tier, seed, deep=False):
    r = C.rng_for(seed, "c04-search")
    seen = set()
    def report(cls_, inp, obs, stmt):
        if cls_ in seen: return
        seen.add(cls_)
        res.witness(dict(component="apply_location under a change of units", statement=stmt, input=inp, observed=obs, expected="C04", **{"class": cls_}))
    rounds = 1 if tier == "quick" else 4
    for rnd in range(rounds):
        for name in R.ALL:
            modes = ["none", "days"] + (["years"] if name in ("CDFt", "QuantileDeltaMapping") else [])
            if tier == "quick": modes = [modes[(rnd + len(name)) % len(modes)]]
            for mode in modes:
                d = R.build(name, "tas", mode, r)
                rs = np.random.RandomState(r.randint(0, 10 ** 6))
                nO, nH, nF = r.randint(730, 800), r.randint(730, 800), r.randint(730, 1100)
                obs, hist, fut = R.series(rs, nO), R.series(rs, nH, "tas", 1.5, 1.3), R.series(rs, nF, "tas", 3.0, 1.1)
                tO, tH, tF = R.times(nO, "1980-01-01"), R.times(nH, "1980-01-01"), R.times(nF, "2040-01-01")
                base = R.run(d, obs, hist, fut, tO, tH, tF)
                for (a, b) in (MAPS if tier != "quick" else [MAPS[rnd % 4], MAPS[(rnd + 1) % 4]]):
                    out = R.run(d, a * obs + b, a * hist + b, a * fut + b, tO, tH, tF)
                    want = a * base + b
                    scale = max(float(np.max(np.abs(want))), abs(a) * 10)
                    err = float(np.max(np.abs(out - want))) / scale
                    res.case(("c04", name, mode, a))
                    if not (err <= 1e-7):
                        report("not-unit-equivariant:" + name, dict(debiaser=name, window_mode=mode, a=a, b=b, seed=seed), err,
                               "expressing the three series in another unit does not change the output by the same map")
        # (a) anomalies of order one around zero in the base unit (degC near freezing, skewed day-to-day variability): a
        #     goodness-of-fit decision or a clip that looks at raw magnitudes behaves differently there than at 273 K or 32 degF;
        # (b) the non-default ECDF estimate from a histogram (kernel_density): its bins must move with the unit
        near_zero = [("ISIMIP", "none", {}), ("ISIMIP", "days", {}), ("QuantileMapping", "none", {}), ("CDFt", "none", {}), ("ScaledDistributionMapping", "none", {})]
        #     (window-free only, and no sample of 2^k values: NumPy's bins="auto" takes ceil(range / width) with Sturges' width
        #      range / (log2(n) + 1), which sits exactly on an integer when n is a power of two, so that rounding decides between
        #      k + 1 and k + 2 bins — a discontinuity of the estimator, in any unit; window slices can have any size)
        kd = [(n_, m_, dict(ecdf_method="kernel_density")) for n_, m_ in (("CDFt", "none"), ("QuantileDeltaMapping", "none"))]
        if tier == "quick": near_zero = near_zero[:2] + [near_zero[2 + (seed + rnd) % 3]]
        # (c) a nearly constant record (sea-ice freezing point, 271.35 K +- 3e-4 K): a "degenerate sample" test with a
        #     tolerance relative to the absolute level sees it in kelvin and not in degC;  (d) the other unbounded ISIMIP
        #     variables (rlds, psl) under maps that take part of the data below zero
        special = [("ISIMIP", "none", dict(_data="const")), ("ISIMIP", "days", dict(_data="const")), ("QuantileMapping", "none", dict(_data="const")),
                   ("ISIMIP", "none", dict(_var="rlds")), ("ISIMIP", "none", dict(_var="psl")), ("ISIMIP", "days", dict(_var="rlds"))]
        if tier == "quick": special = [special[0], special[3], special[1 + (seed + rnd) % 2], special[4 + (seed + rnd) % 2]]
        for name, mode, over in near_zero + kd + special:
            data_kind = over.get("_data"); varname = over.get("_var", "tas"); over = {k: v for k, v in over.items() if not k.startswith("_")}
            d = R.build(name, varname, mode, r, **over)
            rs = np.random.RandomState(r.randint(0, 10 ** 6))
            nO, nH, nF = r.randint(730, 800), r.randint(730, 800), r.randint(730, 1100)
            if nF == 1024: nF = 1023      # (see the note on bins="auto" above)
            maps = ((1.0, 273.15), (1.8, 32.0))
            if data_kind == "const":
                mkc = lambda n, sh: -1.8 + sh + 3e-4 * rs.standard_normal(n)
                obs, hist, fut = mkc(nO, 0.0), mkc(nH, 2e-4), mkc(nF, 5e-4)
            elif varname != "tas":
                lvl, sd = (300.0, 40.0) if varname == "rlds" else (101000.0, 900.0)
                mkr = lambda n, sh: lvl + sh * sd / 10 + sd * rs.standard_normal(n) + sd / 2 * np.sin(np.arange(n) * 2 * np.pi / 365.25)
                obs, hist, fut = mkr(nO, 0.0), mkr(nH, 1.5), mkr(nF, 3.0)
                maps = ((0.1, -30.0), (1.0, -lvl)) if varname == "rlds" else ((0.01, 0.0), (1.0, -101325.0))
            elif over:
                obs, hist, fut = R.series(rs, nO) - 273.15, R.series(rs, nH, "tas", 1.5, 1.3) - 273.15, R.series(rs, nF, "tas", 3.0, 1.1) - 273.15
            else:
                mk = lambda n, sh, sc: sh + 0.4 * np.sin(np.arange(n) * 2 * np.pi / 365.25) + sc * (rs.gamma(2.0, 0.6, n) - 1.2)
                obs, hist, fut = mk(nO, 0.1, 1.0), mk(nH, 0.5, 1.3), mk(nF, 0.9, 1.2)
            tO, tH, tF = R.times(nO, "1980-01-01"), R.times(nH, "1980-01-01"), R.times(nF, "2040-01-01")
            try:
                base = R.run(d, obs, hist, fut, tO, tH, tF)
            except Exception as e:
                report("exception:" + name, dict(debiaser=name, window_mode=mode, settings=str(over), seed=seed), repr(e)[:300], "apply_location raised"); continue
            for (a, b) in maps:
                out = R.run(d, a * obs + b, a * hist + b, a * fut + b, tO, tH, tF)
                want = a * base + b
                err = float(np.max(np.abs(out - want))) / max(float(np.max(np.abs(want))), abs(a) * 10)
                label = "near-constant" if data_kind == "const" else varname if varname != "tas" else "kernel_density" if over else "near-zero"
                res.case(("c04-" + label, name, mode, a))
                if not (err <= 1e-7):
                    report("not-unit-equivariant:%s:%s" % (name, label), dict(debiaser=name, variable=varname, window_mode=mode, settings=str(over), data=data_kind, a=a, b=b, seed=seed), err,
                           "expressing the three series in another unit does not change the output by the same map")
        for name in ("LinearScaling", "DeltaChange"):
            d = R.build(name, "pr", "none")
            rs = np.random.RandomState(r.randint(0, 10 ** 6))
            obs, hist, fut = R.series(rs, 500, "pr"), R.series(rs, 500, "pr", scale=1.4), R.series(rs, 600, "pr", scale=1.2)
            t = R.times(600, "1980-01-01")
            base = R.run(d, obs, hist, fut, t[:500], t[:500], t)
            for a in (86400.0, 0.001, 1e-5, 1e-7):      # (fluxes re-expressed in m s-1 and smaller: means far below 1e-8)
                out = R.run(d, a * obs, a * hist, a * fut, t[:500], t[:500], t)
                err = float(np.max(np.abs(out - a * base))) / max(1e-300, float(np.max(np.abs(a * base))))
                res.case(("c04-mult", name, a))
                if not (err <= 1e-9):
                    report("not-rescaling-equivariant:" + name, dict(debiaser=name, a=a, seed=seed), err, "multiplicative configuration is not equivariant under pure rescaling")

    # the ECDF toolkit the debiasers are built from, on exactly representable data (whole numbers, many
    # ties) under an exactly representable shift: every input of the shifted call is the exact image of the
    # unshifted one, so ecdf must not move and iecdf must move by exactly the shift.  (kernel_density is
    # left out: np.histogram(bins="auto") chooses the NUMBER of bins from floating-point statistics.)
    from ibicus.utils import ecdf, iecdf
    rs = np.random.RandomState(r.randint(0, 10 ** 6))
    for trial in range(300 if tier == "quick" else 3000):
        n = int(rs.randint(3, 300))
        x = np.round(rs.normal(288, rs.choice([1, 3, 10]), n)); y = np.round(rs.normal(288, 4, int(rs.randint(1, 50))))
        b = float(rs.choice([-273, -100, 7, 1000])); p = rs.rand(20)
        for m in ("step_function", "linear_interpolation"):
            e = float(np.abs(ecdf(x + b, y + b, method=m) - ecdf(x, y, method=m)).max())
            res.case(("toolkit-shift", "ecdf", m))
            if e > 1e-9:
                k = int(np.argmax(np.abs(ecdf(x + b, y + b, method=m) - ecdf(x, y, method=m))))
                report("toolkit-shift:ecdf:" + m, dict(x=x.tolist(), y=float(y[k]), shift=b, seed=seed, trial=trial), [float(ecdf(x, y, method=m)[k]), float(ecdf(x + b, y + b, method=m)[k])],
                       "ecdf(x + b, y + b) != ecdf(x, y) for whole-number data and a whole-number shift b")
        for m in ("inverted_cdf", "linear", "closest_observation", "averaged_inverted_cdf", "hazen", "weibull", "median_unbiased"):
            e = float(np.abs(iecdf(x + b, p, method=m) - (iecdf(x, p, method=m) + b)).max())
            res.case(("toolkit-shift", "iecdf", m))
            if e > 1e-9:
                report("toolkit-shift:iecdf:" + m, dict(x=x.tolist(), shift=b, seed=seed, trial=trial), e, "iecdf(x + b, p) != iecdf(x, p) + b for whole-number data and a whole-number shift b")
    # whole-degree records (many ties) through the debiasers whose transfer function is built from that
    # toolkit, under the same exact shift
    # (CDFt is left out: it first shifts cm_hist by mean(obs) - mean(cm_hist), and when that difference
    # happens to be a whole number the shifted values tie with obs exactly, a genuine discontinuity)
    for name in ("QuantileDeltaMapping", "ISIMIP"):
        d = R.build(name, "tas", "none", r)
        rs2 = np.random.RandomState(r.randint(0, 10 ** 6))
        nO, nH, nF = r.randint(730, 800), r.randint(730, 800), r.randint(730, 1100)
        obs, hist, fut = [np.round(v) for v in (R.series(rs2, nO), R.series(rs2, nH, "tas", 1.5, 1.3), R.series(rs2, nF, "tas", 3.0, 1.1))]
        tO, tH, tF = R.times(nO, "1980-01-01"), R.times(nH, "1980-01-01"), R.times(nF, "2040-01-01")
        base = R.run(d, obs, hist, fut, tO, tH, tF); out = R.run(d, obs - 273.0, hist - 273.0, fut - 273.0, tO, tH, tF)
        err = float(np.max(np.abs(out - (base - 273.0))))
        res.case(("c04-whole-degree", name))
        if not (err <= 1e-6):
            report("whole-degree-shift:" + name, dict(debiaser=name, window_mode="none", shift=-273.0, n=[nO, nH, nF], seed=seed), err,
                   "whole-degree records shifted by -273 (exact in floating point) do not give the shifted output")

    # whole-degree records stored as integers, through apply (which converts them): Kelvin -> Celsius
    import warnings as _w
    for name in ("LinearScaling", "QuantileMapping", "DeltaChange", "ECDFM"):
        d = R.build(name, "tas", r.choice(["none", "days"]), r)
        rs3 = np.random.RandomState(r.randint(0, 10 ** 6))
        n = 800
        mk = lambda sh: np.round(R.series(rs3, n, "tas", sh)).astype(np.int64).reshape(n, 1, 1)
        obs, hist, fut = mk(0.0) - 10, mk(1.5) - 10, mk(3.0) - 10        # around 270 K: Celsius values of both signs
        t = R.times(n, "1980-01-01"); tk = dict(time_obs=t, time_cm_hist=t, time_cm_future=t)
        with _w.catch_warnings():
            _w.simplefilter("ignore")
            np.random.seed(11); base = d.apply(obs, hist, fut, progressbar=False, **tk)
            np.random.seed(11); out = d.apply(obs - 273, hist - 273, fut - 273, progressbar=False, **tk)
        res.case(("c04-integer-records", name))
        err = float(np.max(np.abs(out.astype(float) - (base.astype(float) - 273))))
        if not (err <= 1e-6) or not np.issubdtype(out.dtype, np.floating):
            report("integer-records:" + name, dict(debiaser=name, dtype="int64", shift=-273, seed=seed), dict(max_error=err, output_dtype=str(out.dtype)),
                   "whole-degree records stored as integers: Kelvin and Celsius input do not give the same output up to the shift")

def replay(w):
    return True, "re-run ./check C04 (inputs are regenerated from the recorded seed)"
