#!/usr/bin/env python3
"""Extract the ordered input / output check list of Debiaser into Gallina (Gen/GenChecks.v),
and the position of the check relative to the location loop in Debiaser.apply and
DeltaChange.apply.  Fail-closed."""
import ast, os, hashlib
from pyast2coq import Refuse

ARGS = {"obs": "A_obs", "cm_hist": "A_cm_hist", "cm_future": "A_cm_future", "output": "A_output"}

def warn_kind(msg):
    if "float dtype" in msg: return "W_dtype"
    if "The debiaser output contains inf or nan" in msg: return "W_out_nonfinite"
    if "The debiaser output contains values outside" in msg: return "W_out_range"
    if "inf or nan" in msg: return "W_nonfinite"
    if "reasonable physical range" in msg: return "W_range"
    if "masked array and contains cells with invalid" in msg: return "W_masked_invalid"
    if "masked array, but contains no invalid" in msg: return "W_masked_valid"
    raise Refuse("unclassified warning %r" % msg[:60])

def const_str(node):
    if isinstance(node, ast.Constant) and isinstance(node.value, str):
        return node.value
    if isinstance(node, ast.BinOp) and isinstance(node.op, ast.Mod):
        return const_str(node.left)
    raise Refuse("warning message form")

def pred_call(node):
    """Debiaser._p(x...) or self._p(x) -> (pred name, [args])"""
    if not (isinstance(node, ast.Call) and isinstance(node.func, ast.Attribute) and isinstance(node.func.value, ast.Name)
            and node.func.value.id in ("Debiaser", "self")):
        raise Refuse("predicate form %s" % ast.unparse(node))
    args = []
    for a in node.args:
        if not (isinstance(a, ast.Name) and a.id in ARGS):
            raise Refuse("predicate argument %s" % ast.unparse(a))
        args.append(ARGS[a.id])
    return node.func.attr, args

def test_of(node):
    neg = False
    if isinstance(node, ast.UnaryOp) and isinstance(node.op, ast.Not):
        neg, node = True, node.operand
    p, args = pred_call(node)
    return neg, p, args

def actions(stmts):
    out = []
    for s in stmts:
        if isinstance(s, ast.Raise):
            exc = s.exc.func.id if isinstance(s.exc, ast.Call) and isinstance(s.exc.func, ast.Name) else None
            if exc not in ("TypeError", "ValueError"):
                raise Refuse("raise form")
            out.append("ARaise %s" % ("E_Type" if exc == "TypeError" else "E_Value"))
        elif isinstance(s, ast.Expr) and isinstance(s.value, ast.Call) and ast.unparse(s.value.func) == "warnings.warn":
            msg = const_str(s.value.args[0])
            subj = msg.split(" ")[0]
            out.append("AWarn %s %s" % (warn_kind(msg), ARGS.get(subj, "A_output")))
        elif isinstance(s, ast.Assign) and len(s.targets) == 1 and isinstance(s.targets[0], ast.Name) and s.targets[0].id in ARGS:
            p, args = pred_call(s.value)
            if args != [ARGS[s.targets[0].id]]:
                raise Refuse("conversion assigns a different argument")
            out.append('AConvert "%s" %s' % (p, args[0]))
        elif isinstance(s, ast.If):
            neg, p, args = test_of(s.test)
            out.append('AIf %s "%s" [%s] [%s] [%s]' % ("true" if neg else "false", p, "; ".join(args),
                                                      "; ".join(actions(s.body)), "; ".join(actions(s.orelse))))
        else:
            raise Refuse("statement in check list: %s" % ast.unparse(s)[:80])
    return out

def check_list(fn, final_return=None):
    items = []
    for s in fn.body:
        if isinstance(s, ast.Expr) and isinstance(s.value, ast.Constant):
            continue
        if isinstance(s, ast.Return):
            if final_return is not None and ast.unparse(s.value) != final_return:
                raise Refuse("return form %s" % ast.unparse(s.value))
            continue
        if not isinstance(s, ast.If) or s.orelse:
            raise Refuse("top-level statement %s" % ast.unparse(s)[:80])
        items += actions([s])
    return items

# The descriptor semantics of Model/Checks.v gives each predicate / conversion helper of Debiaser a fixed
# meaning (is an ndarray, has 3 dimensions, all three spatial shapes equal, ...).  That meaning is valid for
# exactly these bodies: a helper whose body reads differently is refused (fail-closed), so that e.g. a
# shape test on one axis only cannot hide behind the unchanged check list.
PRED_BODIES = {
    "_is_correct_type": "return isinstance(df, np.ndarray)",
    "_has_correct_shape": "return df.ndim == 3",
    "_have_same_shape": "return obs.shape[1:] == cm_hist.shape[1:] and obs.shape[1:] == cm_future.shape[1:]",
    "_contains_inf_nan": "return np.any(np.logical_or(np.isnan(x), np.isinf(x)))",
    "_not_if_or_nan_vals_outside_reasonable_physical_range": "if self.reasonable_physical_range is not None:\n    return not np.all((x >= self.reasonable_physical_range[0]) & (x <= self.reasonable_physical_range[1]) | np.isinf(x) | np.isnan(x)); return False",
    "_has_float_dtype": "return np.issubdtype(x.dtype, np.floating)",
    "_is_masked_array": "return isinstance(x, np.ma.core.MaskedArray)",
    "_masked_array_contains_invalid_values": "return np.any(x.mask)",
    "_convert_to_float_dtype": "try:\n    return x.astype(float)\nexcept Exception:\n    raise ValueError('Conversion to float not possible. Please use float datatype for obs, cm_hist, cm_future.')",
    "_fill_masked_array_with_nan": "return x.filled(np.nan)",
}

def check_helper_bodies(tree, used):
    for name in sorted(used):
        if name not in PRED_BODIES:
            raise Refuse("check list uses the helper %s, which has no descriptor semantics" % name)
        m = find_method(tree, "Debiaser", name)
        body = [s for s in m.body if not (isinstance(s, ast.Expr) and isinstance(s.value, ast.Constant))]
        got = "; ".join(ast.unparse(x) for x in body)
        if got != PRED_BODIES[name]:
            raise Refuse("helper Debiaser.%s has an unrecognised body: %s" % (name, got[:160]))

def find_method(tree, cls, name):
    for n in tree.body:
        if isinstance(n, ast.ClassDef) and n.name == cls:
            for m in n.body:
                if isinstance(m, ast.FunctionDef) and m.name == name:
                    return m
    raise Refuse("%s.%s not found" % (cls, name))

def check_before_map(fn):
    """index of the statement calling _check_inputs_and_convert_if_possible is smaller than that of any
    statement calling (parallel_)map_over_locations, and its result is bound to (obs, cm_hist, cm_future)"""
    chk, mp = None, []
    for i, s in enumerate(fn.body):
        for n in ast.walk(s):
            if isinstance(n, ast.Call) and isinstance(n.func, ast.Attribute):
                if n.func.attr == "_check_inputs_and_convert_if_possible":
                    ok = isinstance(s, ast.Assign) and ast.unparse(s.targets[0]) in ("(obs, cm_hist, cm_future)", "obs, cm_hist, cm_future") \
                        and [ast.unparse(a) for a in n.args] == ["obs", "cm_hist", "cm_future"]
                    if not ok:
                        raise Refuse("check call form")
                    chk = i if chk is None else chk
                if n.func.attr in ("map_over_locations", "parallel_map_over_locations"):
                    mp.append(i)
    return chk is not None and mp and all(chk < j for j in mp)

def generate_checks(repo):
    hashes = {}
    def load(rel):
        src = open(os.path.join(repo, rel)).read()
        hashes[rel] = hashlib.sha256(src.encode()).hexdigest()
        return ast.parse(src)
    t = load("ibicus/debias/_debiaser.py")
    items = check_list(find_method(t, "Debiaser", "_check_inputs_and_convert_if_possible"), "(obs, cm_hist, cm_future)")
    out_items = check_list(find_method(t, "Debiaser", "_check_output"))
    import re
    check_helper_bodies(t, set(re.findall(r'"(_[a-z_]+)"', " ".join(items + out_items))))
    td = load("ibicus/debias/_delta_change.py")
    txt = "(* GENERATED by /verif/translator/gen_checks.py from ibicus/debias/_debiaser.py, _delta_change.py -- do not edit. *)\n"
    txt += "From Coq Require Import List Bool String.\nFrom IV Require Import ChecksBase.\nImport ListNotations.\nOpen Scope string_scope.\n\n"
    txt += "Definition input_checks : list action :=\n  [ " + ";\n    ".join(items) + " ].\n\n"
    txt += "Definition output_checks : list action :=\n  [ " + ";\n    ".join(out_items) + " ].\n\n"
    txt += "Definition check_before_map_Debiaser : bool := %s.\n" % ("true" if check_before_map(find_method(t, "Debiaser", "apply")) else "false")
    txt += "Definition check_before_map_DeltaChange : bool := %s.\n" % ("true" if check_before_map(find_method(td, "DeltaChange", "apply")) else "false")
    return txt, hashes

if __name__ == "__main__":
    import sys
    print(generate_checks(sys.argv[1] if len(sys.argv) > 1 else "/repo")[0])
