#!/usr/bin/env python3
"""Fail-closed translator from a small, syntactically recognisable subset of Python
(as used by ibicus' integer / scalar / decision code) to Gallina.

Every construct outside the whitelist raises Refuse; the caller then treats every
theorem depending on the generated file as broken (never a silent skip).

Types: Z (python int), Q (python float, modelled exactly), B (bool), S (str),
LZ / LQ / LB (1-d arrays), ("T", t1, ..., tn) tuples.
"""
import ast
import hashlib

class Refuse(Exception):
    pass

def is_list(t):
    return t in ("LZ", "LQ", "LB")

COQ_TYPE = {"D": "dist P", "P": "P", "EM": "ecdf_method", "IM": "iecdf_method", "X": "XQ.t", "Z": "Z", "Q": "Q", "B": "bool", "S": "string", "LZ": "list Z", "LQ": "list Q", "LB": "list bool"}

def coq_type(t):
    if isinstance(t, tuple):
        return "(" + " * ".join(coq_type(x) for x in t[1:]) + ")"
    return COQ_TYPE[t]

def qlit(v):
    """Exact rational literal for a python numeric constant (decimal text is parsed
    exactly: 1e-10 means 1/10^10, as the source says, not the nearest double)."""
    from fractions import Fraction
    f = Fraction(str(v)) if not isinstance(v, int) else Fraction(v)
    return "(%d # %d)" % (f.numerator, f.denominator)

class FuncSpec:
    def __init__(self, func, name=None, cls=None, params=None, selfmap=None, selfconst=None,
                 ret=None, self_out=None, skip_params=(), vararg=None, global_dists=None):
        self.func = func          # python function name
        self.cls = cls            # enclosing class or None
        self.name = name or func  # Coq name
        self.params = params or {}       # python param -> type (ordered)
        self.selfmap = selfmap or {}     # self.attr -> (coq param name, type)
        self.selfconst = selfconst or {} # self.attr -> python constant (partial evaluation)
        self.ret = ret
        self.self_out = self_out  # for __attrs_post_init__-like: list of self attrs returned
        self.skip_params = skip_params
        self.vararg = vararg or {}          # name of *args -> [(coq name, type), ...] (positional meaning of args[i])
        self.global_dists = global_dists or {}   # e.g. {"scipy.stats.gamma": "G"}: a distribution parameter
        self.uses_rng = False

class Translator:
    def __init__(self, source_text, specs, known=None):
        self.tree = ast.parse(source_text)
        self.src = source_text
        self.specs = specs
        # python (cls, func) or func -> (coq name, [param types], ret type, needs_self_params[list of coq names])
        self.known = dict(known or {})
        self.hashes = {}

    # ---------------------------------------------------------------- lookup
    def find(self, cls, func):
        body = self.tree.body
        if cls:
            for n in body:
                if isinstance(n, ast.ClassDef) and n.name == cls:
                    body = n.body
                    break
            else:
                raise Refuse("class %s not found" % cls)
        for n in body:
            if isinstance(n, ast.FunctionDef) and n.name == func:
                return n
        raise Refuse("function %s.%s not found" % (cls, func))

    # ---------------------------------------------------------------- expressions
    def const(self, node, want=None):
        v = node.value
        if isinstance(v, bool):
            return ("true" if v else "false", "B")
        if isinstance(v, int):
            if want == "Q":
                return (qlit(v), "Q")
            return ("(%d)" % v, "Z")
        if isinstance(v, float):
            return (qlit(node_source_number(self.src, node)), "Q")
        if isinstance(v, str):
            return ('"%s"%%string' % v, "S")
        raise Refuse("constant %r" % (v,))

    def toQ(self, e):
        txt, t = e
        if t == "Q":
            return txt
        if t == "Z":
            return "(inject_Z %s)" % txt
        raise Refuse("cannot coerce %s to Q" % (t,))

    def expr(self, node, env, sp):
        if isinstance(node, ast.Constant):
            return self.const(node)
        if isinstance(node, ast.Name):
            if node.id in env:
                return env[node.id]
            raise Refuse("unbound name %s" % node.id)
        if isinstance(node, ast.Attribute):
            if isinstance(node.value, ast.Name) and node.value.id == "self":
                a = node.attr
                if ("self." + a) in env:
                    return env["self." + a]
                if a in sp.selfconst:
                    return self.const(ast.Constant(sp.selfconst[a]))
                raise Refuse("self.%s not in spec" % a)
            if isinstance(node.value, ast.Name) and node.value.id == "np" and node.attr == "inf":
                return ("XQ.PInf", "X")
            # x.size
            if node.attr == "size":
                v, t = self.expr(node.value, env, sp)
                if is_list(t):
                    return ("(Z.of_nat (List.length %s))" % v, "Z")
            raise Refuse("attribute %s" % ast.dump(node))
        if isinstance(node, ast.NamedExpr):
            raise Refuse("walrus must be hoisted by statement translation")
        if isinstance(node, ast.UnaryOp):
            v, t = self.expr(node.operand, env, sp)
            if isinstance(node.op, ast.Not) and t == "B":
                return ("(negb %s)" % v, "B")
            if isinstance(node.op, ast.USub) and t == "X":
                return ("(XQ.neg %s)" % v, "X")
            if isinstance(node.op, ast.USub) and t == "Z":
                return ("(- %s)" % v, "Z")
            if isinstance(node.op, ast.USub) and t == "Q":
                return ("(- %s)%%Q" % v, "Q")
            raise Refuse("unary %s on %s" % (type(node.op).__name__, t))
        if isinstance(node, ast.BinOp):
            return self.binop(node, env, sp)
        if isinstance(node, ast.BoolOp):
            vals = [self.expr(v, env, sp) for v in node.values]
            if any(t != "B" for _, t in vals):
                raise Refuse("BoolOp on non-bool")
            op = " && " if isinstance(node.op, ast.And) else " || "
            return ("(" + op.join(v for v, _ in vals) + ")", "B")
        if isinstance(node, ast.Compare):
            return self.compare(node, env, sp)
        if isinstance(node, ast.Tuple):
            es = [self.expr(e, env, sp) for e in node.elts]
            return ("(" + ", ".join(v for v, _ in es) + ")", ("T",) + tuple(t for _, t in es))
        if isinstance(node, ast.IfExp):
            c, tc = self.expr(node.test, env, sp)
            a, ta = self.expr(node.body, env, sp)
            b, tb = self.expr(node.orelse, env, sp)
            if tc != "B":
                raise Refuse("IfExp test")
            if ta != tb:
                if {ta, tb} == {"Z", "Q"}:
                    return ("(if %s then %s else %s)" % (c, self.toQ((a, ta)), self.toQ((b, tb))), "Q")
                raise Refuse("IfExp branch types")
            return ("(if %s then %s else %s)" % (c, a, b), ta)
        if isinstance(node, ast.Subscript):
            return self.subscript(node, env, sp)
        if isinstance(node, ast.Call):
            return self.call(node, env, sp)
        raise Refuse("expression %s" % type(node).__name__)

    def binop(self, node, env, sp):
        a = self.expr(node.left, env, sp)
        b = self.expr(node.right, env, sp)
        ta, tb = a[1], b[1]
        op = node.op
        if ta == "B" and tb == "B" and isinstance(op, (ast.BitAnd, ast.BitOr)):
            return ("(%s %s %s)" % (a[0], "&&" if isinstance(op, ast.BitAnd) else "||", b[0]), "B")
        if ta == "Z" and tb == "Z":
            if isinstance(op, ast.Add): return ("(%s + %s)" % (a[0], b[0]), "Z")
            if isinstance(op, ast.Sub): return ("(%s - %s)" % (a[0], b[0]), "Z")
            if isinstance(op, ast.Mult): return ("(%s * %s)" % (a[0], b[0]), "Z")
            if isinstance(op, ast.FloorDiv): return ("(%s / %s)" % (a[0], b[0]), "Z")
            if isinstance(op, ast.Mod): return ("(%s mod %s)" % (a[0], b[0]), "Z")
            if isinstance(op, ast.Div): return ("(%s / %s)%%Q" % (self.toQ(a), self.toQ(b)), "Q")
            raise Refuse("Z binop %s" % type(op).__name__)
        if ta in ("Z", "Q") and tb in ("Z", "Q"):
            x, y = self.toQ(a), self.toQ(b)
            sym = {ast.Add: "+", ast.Sub: "-", ast.Mult: "*", ast.Div: "/"}.get(type(op))
            if sym is None:
                raise Refuse("Q binop %s" % type(op).__name__)
            return ("(%s %s %s)%%Q" % (x, sym, y), "Q")
        sym = {ast.Add: "+", ast.Sub: "-", ast.Mult: "*", ast.Div: "/"}.get(type(op))
        if sym and ta == "LQ" and tb in ("Z", "Q"):
            return ("(let s__ := %s in map (fun x__ => (x__ %s s__)%%Q) %s)" % (self.toQ(b), sym, a[0]), "LQ")
        if sym and tb == "LQ" and ta in ("Z", "Q"):
            return ("(let s__ := %s in map (fun x__ => (s__ %s x__)%%Q) %s)" % (self.toQ(a), sym, b[0]), "LQ")
        if sym and ta == "LQ" and tb == "LQ":
            return ("(QL.zip2 (fun a__ b__ => (a__ %s b__)%%Q) %s %s)" % (sym, a[0], b[0]), "LQ")
        raise Refuse("binop on %s, %s" % (ta, tb))

    def compare(self, node, env, sp):
        if len(node.ops) != 1:
            raise Refuse("chained comparison")
        a = self.expr(node.left, env, sp)
        op = node.ops[0]
        if isinstance(op, ast.IsNot) and isinstance(node.comparators[0], ast.Constant) and node.comparators[0].value is None:
            if a[1] in ("X", "Q", "Z"):
                return ("true", "B")
            raise Refuse("is not None on %s" % (a[1],))
        b = self.expr(node.comparators[0], env, sp)
        ta, tb = a[1], b[1]
        if ta == "S" and tb == "S":
            if isinstance(op, ast.Eq): return ("(String.eqb %s %s)" % (a[0], b[0]), "B")
            raise Refuse("string compare")
        if ta == "X" and tb == "X":
            f = {ast.Lt: "XQ.ltb", ast.Gt: "XQ.gtb", ast.LtE: "XQ.leb", ast.GtE: "XQ.geb", ast.Eq: "XQ.eqb"}.get(type(op))
            if f: return ("(%s %s %s)" % (f, a[0], b[0]), "B")
            if isinstance(op, ast.NotEq): return ("(negb (XQ.eqb %s %s))" % (a[0], b[0]), "B")
            raise Refuse("X compare")
        if ta == "X" and isinstance(op, ast.IsNot) and isinstance(node.comparators[0], ast.Constant) and node.comparators[0].value is None:
            return ("true", "B")
        if ta == "Z" and tb == "Z":
            sym = {ast.Eq: "=?", ast.Lt: "<?", ast.LtE: "<=?", ast.Gt: ">?", ast.GtE: ">=?"}.get(type(op))
            if sym: return ("(%s %s %s)" % (a[0], sym, b[0]), "B")
            if isinstance(op, ast.NotEq): return ("(negb (%s =? %s))" % (a[0], b[0]), "B")
            raise Refuse("Z compare")
        if ta in ("Z", "Q") and tb in ("Z", "Q"):
            x, y = self.toQ(a), self.toQ(b)
            if isinstance(op, ast.Eq): return ("(Qeq_bool %s %s)" % (x, y), "B")
            if isinstance(op, ast.NotEq): return ("(negb (Qeq_bool %s %s))" % (x, y), "B")
            if isinstance(op, ast.LtE): return ("(Qle_bool %s %s)" % (x, y), "B")
            if isinstance(op, ast.GtE): return ("(Qle_bool %s %s)" % (y, x), "B")
            if isinstance(op, ast.Lt): return ("(negb (Qle_bool %s %s))" % (y, x), "B")
            if isinstance(op, ast.Gt): return ("(negb (Qle_bool %s %s))" % (x, y), "B")
        raise Refuse("compare on %s, %s" % (ta, tb))

    def lam_over(self, node, arr_name, env, sp, elem_t):
        """Translate a boolean expression over array [arr_name] elementwise into a lambda."""
        env2 = dict(env)
        env2[arr_name] = ("v__", elem_t)
        body, t = self.expr(node, env2, sp)
        if t != "B":
            raise Refuse("mask expression not boolean")
        return "(fun v__ => %s)" % body

    def subscript(self, node, env, sp):
        if isinstance(node.value, ast.Name) and node.value.id in sp.vararg and isinstance(node.slice, ast.Constant) and isinstance(node.slice.value, int):
            items = sp.vararg[node.value.id]
            if 0 <= node.slice.value < len(items):
                return items[node.slice.value]
            raise Refuse("vararg index")
        # x.shape[0]
        if isinstance(node.value, ast.Attribute) and node.value.attr == "shape" and isinstance(node.slice, ast.Constant) and node.slice.value == 0:
            v, t = self.expr(node.value.value, env, sp)
            if is_list(t):
                return ("(Z.of_nat (List.length %s))" % v, "Z")
        # np.where(mask)[0]
        if isinstance(node.value, ast.Call) and call_name(node.value) == "np.where" and \
           isinstance(node.slice, ast.Constant) and node.slice.value == 0 and len(node.value.args) == 1:
            m, t = self.expr(node.value.args[0], env, sp)
            if t != "LB":
                raise Refuse("np.where arg")
            return ("(NP.where_idx %s)" % m, "LZ")
        # x[<boolean expr over x>]
        if isinstance(node.value, ast.Name) and node.value.id in env and is_list(env[node.value.id][1]):
            arr, t = env[node.value.id]
            names = {n.id for n in ast.walk(node.slice) if isinstance(n, ast.Name)}
            if names == {node.value.id} and isinstance(node.slice, (ast.BinOp, ast.Compare)):
                lam = self.lam_over(node.slice, node.value.id, env, sp, t[1])
                return ("(filter %s %s)" % (lam, arr), t)
        raise Refuse("subscript %s" % ast.unparse(node))

    def call(self, node, env, sp):
        fn_txt = ast.unparse(node.func)
        if fn_txt == "np.where" and len(node.args) == 3 and not node.keywords:
            c, tc = self.expr(node.args[0], env, sp)
            a, ta = self.expr(node.args[1], env, sp)
            b, tb = self.expr(node.args[2], env, sp)
            if tc == "B" and ta in ("Z", "Q") and tb in ("Z", "Q"):
                return ("(if %s then %s else %s)" % (c, self.toQ((a, ta)), self.toQ((b, tb))), "Q")
            if tc == "B" and "X" in (ta, tb) and ta in ("Z", "Q", "X") and tb in ("Z", "Q", "X"):
                # one branch is +-inf: the result lives in the extended rationals
                toX = lambda v, t: v if t == "X" else "(XQ.Fin %s)" % self.toQ((v, t))
                return ("(if %s then %s else %s)" % (c, toX(a, ta), toX(b, tb)), "X")
            raise Refuse("np.where types %s %s %s" % (tc, ta, tb))
        if fn_txt == "np.concatenate" and len(node.args) == 1 and isinstance(node.args[0], ast.List) and not node.keywords:
            parts = [self.expr(e, env, sp) for e in node.args[0].elts]
            if parts and all(t == parts[0][1] and is_list(t) for _, t in parts):
                return ("(" + " ++ ".join(v for v, _ in parts) + ")%list", parts[0][1])
            raise Refuse("np.concatenate parts")
        if fn_txt == "np.random.uniform" and (len(node.args) == 3 or {k.arg for k in node.keywords} >= {"low", "high"}):
            kwd = {k.arg: k.value for k in node.keywords}
            lo = self.expr(node.args[0] if len(node.args) > 0 else kwd["low"], env, sp)
            hi = self.expr(node.args[1] if len(node.args) > 1 else kwd["high"], env, sp)
            sp.uses_rng = True
            return ("(%s + (%s - %s) * u__)%%Q" % (self.toQ(lo), self.toQ(hi), self.toQ(lo)), "Q")
        if isinstance(node.func, ast.Attribute) and ast.unparse(node.func.value) in sp.global_dists and node.func.attr in ("cdf", "ppf"):
            G = sp.global_dists[ast.unparse(node.func.value)]
            if len(node.args) == 2 and isinstance(node.args[1], ast.Starred) and not node.keywords:
                v, t = self.expr(node.args[0], env, sp)
                pf, tp = self.expr(node.args[1].value, env, sp) if not (isinstance(node.args[1].value, ast.Name) and node.args[1].value.id in sp.vararg) else (sp.vararg[node.args[1].value.id][0][0], sp.vararg[node.args[1].value.id][0][1])
                if tp == "P" and t == "Q":
                    return ("(%s %s %s %s)" % (node.func.attr, G, pf, v), "Q")
            raise Refuse("global distribution call form")
        # self.distribution.fit / cdf / ppf  (the distribution is a parameter D : dist P)
        if isinstance(node.func, ast.Attribute) and isinstance(node.func.value, ast.Attribute) and \
           isinstance(node.func.value.value, ast.Name) and node.func.value.value.id == "self" and node.func.value.attr == "distribution":
            if "self.distribution" not in env:
                raise Refuse("self.distribution not in spec")
            D = env["self.distribution"][0]
            m = node.func.attr
            if node.keywords and not (m == "fit" and all(k.arg is None for k in node.keywords)):
                raise Refuse("keyword arguments to distribution.%s" % m)
            if m == "fit" and len(node.args) == 1:
                v, t = self.expr(node.args[0], env, sp)
                if t == "LQ": return ("(fit %s %s)" % (D, v), "P")
                raise Refuse("fit argument")
            if m in ("cdf", "ppf") and len(node.args) == 2 and isinstance(node.args[1], ast.Starred):
                v, t = self.expr(node.args[0], env, sp)
                sv = node.args[1].value
                if isinstance(sv, ast.Name) and sv.id in sp.vararg and len(sp.vararg[sv.id]) == 1:
                    pf, tp = sp.vararg[sv.id][0][0], sp.vararg[sv.id][0][1]      # *fit where fit is the whole parameter tuple
                else:
                    pf, tp = self.expr(sv, env, sp)
                if tp != "P": raise Refuse("%s parameters" % m)
                if t == "LQ": return ("(map (%s %s %s) %s)" % (m, D, pf, v), "LQ")
                if t == "Q": return ("(%s %s %s %s)" % (m, D, pf, v), "Q")
                # an extended rational reaches the distribution only inside a vectorised np.where whose other
                # branch handles the infinite case: the finite part is passed on (XQ.val of +-inf is 0, discarded)
                if t == "X": return ("(%s %s %s (XQ.val %s))" % (m, D, pf, v), "Q")
                raise Refuse("%s argument" % m)
            raise Refuse("distribution.%s form" % m)
        name = call_name(node)
        if name == "np.zeros_like" and len(node.args) == 1 and len(node.keywords) == 1 and node.keywords[0].arg == "dtype" \
           and isinstance(node.keywords[0].value, ast.Name) and node.keywords[0].value.id == "bool":
            v, t = self.expr(node.args[0], env, sp)
            if is_list(t):
                return ("(repeat false (List.length %s))" % v, "LB")
            raise Refuse("zeros_like arg")
        if name in ("ecdf", "iecdf", "quantile_map_non_parametically_with_constant_extrapolation", "quantile_map_non_parametically"):
            kw = {}
            pos = {"ecdf": ["x", "y", "method"], "iecdf": ["x", "p", "method"],
                   "quantile_map_non_parametically_with_constant_extrapolation": ["x", "y", "vals", "ecdf_method", "iecdf_method"],
                   "quantile_map_non_parametically": ["x", "y", "vals", "ecdf_method", "iecdf_method"]}[name]
            for i_, a_ in enumerate(node.args):
                kw[pos[i_]] = a_
            for k_ in node.keywords:
                if k_.arg is None: raise Refuse("**kwargs in %s" % name)
                kw[k_.arg] = k_.value
            ev = {k_: self.expr(v_, env, sp) for k_, v_ in kw.items()}
            def need(k_, t_):
                if k_ not in ev or ev[k_][1] != t_: raise Refuse("%s argument %s" % (name, k_))
                return ev[k_][0]
            if name == "ecdf":
                em = need("method", "EM") if "method" in ev else "step_function"
                return ("(let xs__ := %s in map (Ecdf.ecdf %s xs__) %s)" % (need("x", "LQ"), em, need("y", "LQ")), "LQ")
            if name == "iecdf":
                im = need("method", "IM") if "method" in ev else "inverted_cdf"
                return ("(let xs__ := %s in map (Ecdf.iecdf %s xs__) %s)" % (need("x", "LQ"), im, need("p", "LQ")), "LQ")
            em = need("ecdf_method", "EM") if "ecdf_method" in ev else "step_function"
            im = need("iecdf_method", "IM") if "iecdf_method" in ev else "inverted_cdf"
            f = "Ecdf.qmap_extrap" if "extrapolation" in name else "Ecdf.qmap"
            return ("(let xs__ := %s in let ys__ := %s in map (%s %s %s xs__ ys__) %s)" % (need("x", "LQ"), need("y", "LQ"), f, em, im, need("vals", "LQ")), "LQ")
        if node.keywords:
            # keyword call of a known scalar function: reorder by the registered parameter names
            key0 = name.split(".")[-1]
            if key0 in self.known and len(self.known[key0]) > 4:
                names = self.known[key0][4]
                kwd = {k_.arg: k_.value for k_ in node.keywords}
                if None in kwd or len(node.args) + len(kwd) != len(names):
                    raise Refuse("keyword call of %s" % key0)
                node = ast.Call(func=node.func, args=list(node.args) + [kwd[n_] for n_ in names[len(node.args):]], keywords=[])
                args = [self.expr(a, env, sp) for a in node.args]
            else:
                raise Refuse("keyword arguments in call %s" % name)
        if name == ".sum" and not node.args:
            v, t = self.expr(node.func.value, env, sp)
            if t == "LB":
                return ("(NP.zcount %s)" % v, "Z")
            raise Refuse(".sum() of %s" % (t,))
        args = [self.expr(a, env, sp) for a in node.args] if name not in ("np.round", "round", "np.array") else None
        if name in ("np.min", "np.max") or name in (".min", ".max"):
            if name.startswith("."):
                args = [self.expr(node.func.value, env, sp)]
            (v, t), = args
            which = "min" if name.endswith("min") else "max"
            if t == "LZ": return ("(NP.z%s %s)" % (which, v), "Z")
            if t == "LQ": return ("(QL.q%s %s)" % (which, v), "Q")
            raise Refuse("%s of %s" % (name, t))
        if name == "np.mean":
            (v, t), = args
            if t == "LQ": return ("(QL.qmean %s)" % v, "Q")
            raise Refuse("mean of %s" % (t,))
        if name == "np.arange":
            if any(t != "Z" for _, t in args):
                raise Refuse("arange on non-int")
            if len(args) == 2: return ("(NP.arange %s %s 1)" % (args[0][0], args[1][0]), "LZ")
            if len(args) == 3: return ("(NP.arange %s %s %s)" % tuple(a for a, _ in args), "LZ")
            raise Refuse("arange arity")
        if name == "np.mod":
            (a, ta), (b, tb) = args
            if ta == "LZ" and tb == "Z": return ("(NP.zmod_list %s %s)" % (a, b), "LZ")
            if ta == "Z" and tb == "Z": return ("(%s mod %s)" % (a, b), "Z")
            raise Refuse("np.mod types")
        if name in ("np.in1d", "np.isin"):
            (a, ta), (b, tb) = args
            if ta == "LZ" and tb == "LZ": return ("(NP.isin %s %s)" % (a, b), "LB")
            raise Refuse("isin types")
        if name == "np.logical_and":
            (a, ta), (b, tb) = args
            if ta == "LB" and tb == "LB": return ("(NP.logical_and %s %s)" % (a, b), "LB")
            raise Refuse("logical_and types")
        if name == "np.unique":
            (a, ta), = args
            if ta == "LZ": return ("(NP.unique %s)" % a, "LZ")
            raise Refuse("unique type")
        if name == "np.array":
            n = node.args[0]
            if isinstance(n, ast.List) and len(n.elts) == 1:
                v, t = self.expr(n.elts[0], env, sp)
                if t in ("Z", "Q"): return ("[%s]" % v, "L" + t)
            raise Refuse("np.array form")
        if name in ("np.round", "round"):
            # round(X / 2) on integers (half to even); round(q) on rationals
            a = node.args[0]
            if isinstance(a, ast.BinOp) and isinstance(a.op, ast.Div) and isinstance(a.right, ast.Constant) and a.right.value == 2:
                v, t = self.expr(a.left, env, sp)
                if t == "Z": return ("(NP.round_half %s)" % v, "Z")
            v, t = self.expr(a, env, sp)
            if t == "Q": return ("(QL.round_half_even %s)" % v, "Z")
            if t == "Z": return (v, "Z")
            raise Refuse("round form")
        if name in ("np.maximum", "np.minimum"):
            (a, ta), (b, tb) = args
            f = "QL.qmax2" if name.endswith("maximum") else "QL.qmin2"
            if ta in ("Z", "Q") and tb in ("Z", "Q"):
                return ("(%s %s %s)" % (f, self.toQ((a, ta)), self.toQ((b, tb))), "Q")
            raise Refuse("maximum/minimum types")
        if name == "np.isclose":
            (a, ta), (b, tb) = args
            return ("(QL.isclose %s %s)" % (self.toQ((a, ta)), self.toQ((b, tb))), "B")
        if name == "len":
            (a, ta), = args
            if is_list(ta): return ("(Z.of_nat (List.length %s))" % a, "Z")
            raise Refuse("len type")
        # known (already translated or prelude-modelled) functions
        key = name.split(".")[-1]
        if key in self.known:
            cname, ptypes, rt, selfargs = self.known[key][:4]
            if len(ptypes) != len(args):
                raise Refuse("arity of %s" % key)
            targs = []
            lifted = None
            for (v, t), pt in zip(args, ptypes):
                if t != pt:
                    if pt == "Q" and t == "Z":
                        v = self.toQ((v, t))
                    elif pt == "Q" and t == "LQ" and lifted is None and rt == "Q":
                        lifted = v; v = "x__"
                    else:
                        raise Refuse("arg type of %s: %s vs %s" % (key, t, pt))
                targs.append(v)
            if lifted is not None:
                if selfargs: raise Refuse("lifted call with self args")
                return ("(map (fun x__ => %s %s) %s)" % (cname, " ".join(targs), lifted), "LQ")
            extra = []
            for sa in selfargs:
                if ("self." + sa) not in env:
                    raise Refuse("callee %s needs self.%s" % (key, sa))
                extra.append(env["self." + sa][0])
            return ("(%s %s)" % (cname, " ".join(extra + targs)), rt)
        raise Refuse("call to %s" % name)

    # ---------------------------------------------------------------- statements
    def assigned(self, stmts):
        out = []
        for s in stmts:
            if isinstance(s, ast.Assign):
                for t in s.targets:
                    for n in target_names(t):
                        if n not in out: out.append(n)
            elif isinstance(s, ast.AugAssign):
                for n in target_names(s.target):
                    if n not in out: out.append(n)
            elif isinstance(s, ast.If):
                for n in self.assigned(s.body) + self.assigned(s.orelse):
                    if n not in out: out.append(n)
                for w in ast.walk(s.test):
                    if isinstance(w, ast.NamedExpr) and w.target.id not in out:
                        out.append(w.target.id)
        return out

    def used_names(self, stmts):
        out = set()
        for st in stmts:
            for n in ast.walk(st):
                if isinstance(n, ast.Name):
                    out.add(n.id)
                elif isinstance(n, ast.Attribute) and isinstance(n.value, ast.Name) and n.value.id == "self":
                    out.add("self." + n.attr)
        return out

    def exits(self, stmts):
        for s in stmts:
            for n in ast.walk(s):
                if isinstance(n, (ast.Return, ast.Raise, ast.Yield)):
                    return True
        return False

    def hoist_walrus(self, test, env, sp):
        """Return (prefix_lets, new_test_node, env) hoisting walrus targets out of a test."""
        lets = []
        env = dict(env)
        class R(ast.NodeTransformer):
            def visit_NamedExpr(s, n):
                v = self.expr(n.value, env, sp)
                env[n.target.id] = (n.target.id, v[1])
                lets.append("let %s := %s in" % (n.target.id, v[0]))
                return ast.Name(id=n.target.id, ctx=ast.Load())
        new = R().visit(copy_node(test))
        return lets, new, env

    def block(self, stmts, env, sp, ctx):
        """ctx: dict(opt=bool (function returns option), end=callable(env)->text or None)."""
        if not stmts:
            if ctx["end"] is None:
                raise Refuse("function body falls off the end")
            return ctx["end"](env)
        s, rest = stmts[0], stmts[1:]
        # docstrings, warnings, logging: no value effect
        if isinstance(s, ast.Expr):
            if isinstance(s.value, ast.Constant) and isinstance(s.value.value, str):
                return self.block(rest, env, sp, ctx)
            if isinstance(s.value, ast.Call) and call_name(s.value) in ("warnings.warn", "logger.warning", "logger.info", "logger.error"):
                return self.block(rest, env, sp, ctx)
            raise Refuse("expression statement %s" % ast.unparse(s))
        if isinstance(s, ast.Pass):
            return self.block(rest, env, sp, ctx)
        if isinstance(s, (ast.Return, ast.Assign)) and ctx.get("opt"):
            hoisted = []
            tr = self
            class H(ast.NodeTransformer):
                def visit_Call(h, n):
                    n = h.generic_visit(n)
                    try:
                        key = call_name(n).split(".")[-1]
                    except Refuse:
                        return n
                    if key in tr.known and isinstance(tr.known[key][2], tuple) and tr.known[key][2][0] == "OPT":
                        nm = "opt__%d" % (len(hoisted) + len([k for k in env if k.startswith("opt__")]))
                        hoisted.append((nm, n))
                        return ast.Name(id=nm, ctx=ast.Load())
                    return n
            new_s = H().visit(copy_node(s))
            if hoisted:
                env2 = dict(env)
                text_pre, text_post = "", ""
                for nm, calln in hoisted:
                    key = call_name(calln).split(".")[-1]
                    cname, ptypes, rt, selfargs = self.known[key][:4]
                    saved = self.known[key]
                    self.known[key] = (cname, ptypes, rt[1], selfargs) + tuple(saved[4:])
                    try:
                        ctext, ctype = self.expr(calln, env2, sp)
                    finally:
                        self.known[key] = saved
                    env2[nm] = (nm, ctype)
                    text_pre += "match %s with None => None | Some %s => " % (ctext, nm)
                    text_post += " end"
                return text_pre + "(" + self.block([new_s] + rest, env2, sp, ctx) + ")" + text_post
        if isinstance(s, ast.Return):
            v, t = self.expr(s.value, env, sp)
            if sp.ret is not None and t != sp.ret:
                if sp.ret == "Q" and t == "Z":
                    v = self.toQ((v, t))
                else:
                    raise Refuse("return type %s, expected %s in %s" % (t, sp.ret, sp.func))
            return ("Some %s" % v) if ctx["opt"] else v
        if isinstance(s, ast.Raise):
            if not ctx["opt"]:
                raise Refuse("raise in non-option function")
            return "None"
        if isinstance(s, ast.Assign):
            if len(s.targets) != 1:
                raise Refuse("multi-target assign")
            tgt = s.targets[0]
            # x[x == a] = b
            if isinstance(tgt, ast.Subscript):
                if isinstance(tgt.value, ast.Name) and isinstance(tgt.slice, ast.Compare) and \
                   isinstance(tgt.slice.left, ast.Name) and tgt.slice.left.id == tgt.value.id and \
                   isinstance(tgt.slice.ops[0], ast.Eq) and tgt.value.id in env and env[tgt.value.id][1] == "LZ":
                    a, ta = self.expr(tgt.slice.comparators[0], env, sp)
                    b, tb = self.expr(s.value, env, sp)
                    if ta == "Z" and tb == "Z":
                        nm = tgt.value.id
                        env2 = dict(env); env2[nm] = (nm, "LZ")
                        return "let %s := (NP.replace_eq %s %s %s) in\n  %s" % (nm, env[nm][0], a, b, self.block(rest, env2, sp, ctx))
                if isinstance(tgt.value, ast.Name) and isinstance(tgt.slice, ast.Compare) and \
                   isinstance(tgt.slice.left, ast.Name) and tgt.slice.left.id == tgt.value.id and \
                   tgt.value.id in env and env[tgt.value.id][1] == "LQ" and len(tgt.slice.ops) == 1:
                    nm = tgt.value.id
                    lam = self.lam_over(tgt.slice, nm, env, sp, "Q")
                    b, tb = self.expr(s.value, env, sp)
                    if tb in ("Z", "Q"):
                        env2 = dict(env); env2[nm] = (nm, "LQ")
                        return "let %s := (let c__ := %s in map (fun v__ => if %s v__ then c__ else v__) %s) in\n  %s" % (
                            nm, self.toQ((b, tb)), lam, env[nm][0], self.block(rest, env2, sp, ctx))
                if isinstance(tgt.value, ast.Name) and isinstance(tgt.slice, ast.Slice) and tgt.slice.step is None and \
                   tgt.value.id in env and env[tgt.value.id][1] == "LB":
                    nm = tgt.value.id
                    lo = self.expr(tgt.slice.lower, env, sp) if tgt.slice.lower is not None else ("(0)", "Z")
                    hi = self.expr(tgt.slice.upper, env, sp) if tgt.slice.upper is not None else ("(Z.of_nat (List.length %s))" % env[nm][0], "Z")
                    b, tb = self.expr(s.value, env, sp)
                    if lo[1] == "Z" and hi[1] == "Z" and tb == "B":
                        env2 = dict(env); env2[nm] = (nm, "LB")
                        return "let %s := (NP.set_slice %s %s %s %s) in\n  %s" % (nm, env[nm][0], lo[0], hi[0], b, self.block(rest, env2, sp, ctx))
                raise Refuse("subscript assignment %s" % ast.unparse(s))
            v, t = self.expr(s.value, env, sp)
            env2 = dict(env)
            if isinstance(tgt, ast.Name):
                env2[tgt.id] = (tgt.id, t)
                return "let %s := %s in\n  %s" % (tgt.id, v, self.block(rest, env2, sp, ctx))
            if isinstance(tgt, ast.Attribute) and isinstance(tgt.value, ast.Name) and tgt.value.id == "self":
                key = "self." + tgt.attr
                if key not in env:
                    raise Refuse("assignment to self.%s not in spec" % tgt.attr)
                if env[key][1] != t:
                    raise Refuse("type change of self.%s" % tgt.attr)
                nm = "self_" + tgt.attr
                env2[key] = (nm, t)
                return "let %s := %s in\n  %s" % (nm, v, self.block(rest, env2, sp, ctx))
            if isinstance(tgt, ast.Tuple) and all(isinstance(e, ast.Name) for e in tgt.elts) and isinstance(t, tuple):
                names = [e.id for e in tgt.elts]
                if len(names) != len(t) - 1:
                    raise Refuse("tuple arity")
                for n_, t_ in zip(names, t[1:]):
                    env2[n_] = (n_, t_)
                return "let '(%s) := %s in\n  %s" % (", ".join(names), v, self.block(rest, env2, sp, ctx))
            raise Refuse("assign target %s" % ast.unparse(tgt))
        if isinstance(s, ast.If):
            # constant folding on self constants / strings
            folded = self.fold_test(s.test, env, sp)
            if folded is True:
                return self.block(list(s.body) + rest, env, sp, ctx)
            if folded is False:
                return self.block(list(s.orelse) + rest, env, sp, ctx)
            lets, test, env1 = self.hoist_walrus(s.test, env, sp)
            c, tc = self.expr(test, env1, sp)
            if tc != "B":
                raise Refuse("if test not boolean: %s" % ast.unparse(s.test))
            pre = "\n  ".join(lets) + ("\n  " if lets else "")
            if self.exits(s.body) or self.exits(s.orelse):
                a = self.block(list(s.body) + rest, env1, sp, ctx)
                b = self.block(list(s.orelse) + rest, env1, sp, ctx)
                return "%sif %s then (%s)\n  else (%s)" % (pre, c, a, b)
            # pure assignment if: tuple-let of the assigned variables
            vs = self.assigned(s.body) + [v for v in self.assigned(s.orelse) if v not in self.assigned(s.body)]
            live = self.used_names(rest) | set("self." + a for a in (sp.self_out or []))
            vs = [v for v in vs if v in live]
            if not vs:
                return pre + self.block(rest, env1, sp, ctx)
            types = {}
            def endk(branch_env):
                parts = []
                for v in vs:
                    if v not in branch_env:
                        raise Refuse("variable %s not assigned on every path" % v)
                    types.setdefault(v, branch_env[v][1])
                    if types[v] != branch_env[v][1]:
                        raise Refuse("variable %s has different types on branches" % v)
                    parts.append(branch_env[v][0])
                return "(" + ", ".join(parts) + ")" if len(parts) > 1 else parts[0]
            sub = dict(opt=False, end=endk)
            sp_save = sp.ret; sp.ret = None
            try:
                a = self.block(list(s.body), env1, sp, sub)
                b = self.block(list(s.orelse), env1, sp, sub)
            finally:
                sp.ret = sp_save
            env2 = dict(env1)
            cnames = []
            for v in vs:
                cn = v.replace("self.", "self_")
                cnames.append(cn)
                env2[v] = (cn, types[v])
            pat = "'(" + ", ".join(cnames) + ")" if len(cnames) > 1 else cnames[0]
            return "%slet %s := (if %s then %s else %s) in\n  %s" % (pre, pat, c, a, b, self.block(rest, env2, sp, ctx))
        if isinstance(s, ast.For):
            # for x in xs: yield e   (generator -> map)
            if len(s.body) >= 1 and not rest and isinstance(s.target, ast.Name) and not s.orelse:
                xs, t = self.expr(s.iter, env, sp)
                if not is_list(t):
                    raise Refuse("for over non-list")
                env2 = dict(env); env2[s.target.id] = (s.target.id, t[1])
                body = self.block(list(s.body), env2, sp, dict(opt=False, end=None, gen=True))
                return "(map (fun %s => %s) %s)" % (s.target.id, body, xs)
            raise Refuse("for loop form")
        raise Refuse("statement %s" % type(s).__name__)

    def fold_test(self, test, env, sp):
        if isinstance(test, ast.Compare) and len(test.ops) == 1 and isinstance(test.ops[0], (ast.Is, ast.IsNot)) and \
           isinstance(test.comparators[0], ast.Constant) and test.comparators[0].value is None and \
           isinstance(test.left, ast.Attribute) and isinstance(test.left.value, ast.Name) and test.left.value.id == "self" and test.left.attr in sp.selfconst:
            isnone = sp.selfconst[test.left.attr] is None
            return isnone if isinstance(test.ops[0], ast.Is) else (not isnone)
        if isinstance(test, ast.Compare) and len(test.ops) == 1 and isinstance(test.ops[0], ast.Eq):
            l, r = test.left, test.comparators[0]
            def cv(n):
                if isinstance(n, ast.Constant) and isinstance(n.value, str): return n.value
                if isinstance(n, ast.Attribute) and isinstance(n.value, ast.Name) and n.value.id == "self" and n.attr in sp.selfconst and ("self." + n.attr) not in env:
                    return sp.selfconst[n.attr]
                return None
            a, b = cv(l), cv(r)
            if a is not None and b is not None:
                return a == b
        return None

    # ---------------------------------------------------------------- functions
    def function(self, sp):
        fn = self.find(sp.cls, sp.func)
        seg = ast.get_source_segment(self.src, fn)
        self.hashes[(sp.cls or "") + "." + sp.func] = hashlib.sha256(seg.encode()).hexdigest()
        env = {}
        binders = []
        if any(t == "D" for (_, t) in sp.selfmap.values()) or any(t == "P" for t in sp.params.values()):
            binders.append("{P : Type}")
        for attr, (cn, t) in sp.selfmap.items():
            env["self." + attr] = (cn, t)
            binders.append("(%s : %s)" % (cn, coq_type(t)))
        pyparams = [a.arg for a in fn.args.args if a.arg not in ("self", "cls") and a.arg not in sp.skip_params]
        va = fn.args.vararg.arg if fn.args.vararg else None
        if (set(sp.vararg.keys()) or {None}) != {va}:
            raise Refuse("*args of %s changed: %s vs spec %s" % (sp.func, va, list(sp.vararg.keys())))
        if list(sp.params.keys()) != pyparams:
            raise Refuse("parameter list of %s changed: %s vs spec %s" % (sp.func, pyparams, list(sp.params.keys())))
        for p, t in sp.params.items():
            env[p] = (p, t)
            binders.append("(%s : %s)" % (p, coq_type(t)))
        for va, items in sp.vararg.items():
            for (cn, t) in items:
                binders.append("(%s : %s)" % (cn, coq_type(t)))
        for gname, G in sp.global_dists.items():
            binders.append("(%s : dist P)" % G)
        if (sp.vararg and any(t == "P" for its in sp.vararg.values() for (_, t) in its)) or sp.global_dists:
            if "{P : Type}" not in binders:
                binders.insert(0, "{P : Type}")
        body = list(fn.body)
        # a trailing yield statement is treated as the generator's element
        has_raise = any(isinstance(n, ast.Raise) for s in body for n in ast.walk(s))
        is_gen = any(isinstance(n, ast.Yield) for s in body for n in ast.walk(s))
        if is_gen:
            body = [YieldToReturn().visit(copy_node(s)) for s in body]
            has_raise = False if sp.selfconst else has_raise
        end = None
        has_return = any(isinstance(n, ast.Return) for s_ in body for n in ast.walk(s_))
        if has_raise and not has_return and not sp.self_out and not is_gen:
            end = lambda e: "Some tt"
        if sp.self_out:
            def end(e):
                parts = [e["self." + a][0] for a in sp.self_out]
                v = "(" + ", ".join(parts) + ")" if len(parts) > 1 else parts[0]
                return ("Some %s" % v) if has_raise else v
            rett = ("T",) + tuple(sp.selfmap[a][1] for a in sp.self_out) if len(sp.self_out) > 1 else sp.selfmap[sp.self_out[0]][1]
        else:
            rett = sp.ret
        saved_ret = sp.ret
        if is_gen:
            sp.ret = None
        try:
            txt = self.block(body, env, sp, dict(opt=has_raise, end=end))
        finally:
            sp.ret = saved_ret
        rt = coq_type(rett) if rett else None
        if rt and has_raise:
            rt = "option (" + rt + ")"
        if has_raise and not has_return and not sp.self_out and not is_gen:
            rt = "option unit"
        if sp.uses_rng:
            binders.append("(u__ : Q)")
        header = "Definition %s %s%s :=\n  %s." % (sp.name, " ".join(binders), (" : " + rt) if rt else "", txt)
        self.known[sp.func] = (
            sp.name, [t for t in sp.params.values()], rett if not has_raise else ("OPT", rett),
            [a for a in sp.selfmap.keys()], list(sp.params.keys()))
        return header

class YieldToReturn(ast.NodeTransformer):
    def visit_Expr(self, n):
        if isinstance(n.value, ast.Yield):
            return ast.Return(value=n.value.value)
        return n

def copy_node(n):
    import copy
    return copy.deepcopy(n)

def target_names(t):
    if isinstance(t, ast.Name):
        return [t.id]
    if isinstance(t, ast.Attribute) and isinstance(t.value, ast.Name) and t.value.id == "self":
        return ["self." + t.attr]
    if isinstance(t, ast.Tuple):
        return [n for e in t.elts for n in target_names(e)]
    if isinstance(t, ast.Subscript):
        return target_names(t.value)
    return []

def call_name(node):
    f = node.func
    if isinstance(f, ast.Name):
        return f.id
    if isinstance(f, ast.Attribute):
        if isinstance(f.value, ast.Name):
            if f.value.id in ("np", "warnings", "logger", "self") or f.value.id[:1].isupper():
                return f.value.id + "." + f.attr if f.value.id in ("np", "warnings", "logger") else f.attr
            return "." + f.attr      # method call on a variable, e.g. x.min()
        if isinstance(f.value, ast.Call) and call_name(f.value) == "super":
            return "super." + f.attr
    raise Refuse("call target %s" % ast.unparse(f))

def node_source_number(src, node):
    seg = ast.get_source_segment(src, node)
    try:
        float(seg)
        return seg
    except Exception:
        raise Refuse("float literal %r" % seg)
