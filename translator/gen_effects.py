#!/usr/bin/env python3
"""Extract an array-effect program (Model/Effects.v IR) from the ibicus sources, compute the least
points-to facts and effect summaries by fixpoint, and emit them as Gallina data (Gen/GenEffects.v).
The Coq side RE-CHECKS the claimed facts (check_program, by vm_compute) and the soundness theorem
(Proofs/Effects_proofs.v) turns a successful check into a statement about every execution.

Trusted: this extractor's classification of NumPy operations (basic slices / names => may alias;
arithmetic, np.sort, .copy(), comparisons, fancy / Boolean indexing => fresh; in-place methods and
subscript / augmented assignment => store), cross-checked dynamically by correspondence K14.
Attributes of `self` are settings (immutable scalars / helper objects): reading one yields a fresh value,
writing one is recorded (SSelf)."""
import ast, os, hashlib

MODULES = [
    "ibicus/utils/_utils.py", "ibicus/utils/_math_utils.py", "ibicus/utils/_running_window_mode.py",
    "ibicus/debias/_debiaser.py", "ibicus/debias/_running_window_debiaser.py", "ibicus/debias/_linear_scaling.py",
    "ibicus/debias/_delta_change.py", "ibicus/debias/_quantile_mapping.py", "ibicus/debias/_scaled_distribution_mapping.py",
    "ibicus/debias/_cdft.py", "ibicus/debias/_ecdfm.py", "ibicus/debias/_quantile_delta_mapping.py", "ibicus/debias/_isimip.py",
    "ibicus/evaluate/metrics.py",
]
DEBIASERS = ["LinearScaling", "DeltaChange", "QuantileMapping", "ScaledDistributionMapping", "CDFt", "ECDFM", "QuantileDeltaMapping", "ISIMIP"]

# library calls whose result may be a view of (alias) their array arguments
VIEW_FUNCS = {"np.asarray", "np.asanyarray", "np.atleast_1d", "np.atleast_2d", "np.reshape", "np.ravel", "np.squeeze", "np.transpose",
              "np.moveaxis", "np.swapaxes", "np.broadcast_to", "np.expand_dims", "np.real", "np.array_split", "np.split", "np.nditer", "np.diagonal"}
VIEW_METHODS = {"reshape", "ravel", "squeeze", "transpose", "view", "swapaxes", "T", "real", "imag", "flat", "values", "filled_view", "data", "base"}
# in-place library operations: first argument (functions) or receiver (methods) is written
INPLACE_FUNCS = {"np.put", "np.place", "np.copyto", "np.putmask", "np.random.shuffle", "np.fill_diagonal", "np.put_along_axis"}
INPLACE_METHODS = {"sort", "fill", "resize", "partition", "itemset", "put", "setfield", "byteswap_inplace", "append", "extend", "insert", "pop", "remove", "clear", "update", "setflags"}
# project functions / expression kinds that produce index arrays or Boolean masks (=> x[idx] is a copy)
INDEX_FUNCS = {"get_indices_vals_in_window", "get_indices_vals_to_adjust", "get_mask_vals_to_adjust_in_window", "get_if_in_chosen_years",
               "get_mask_for_unique_subarray", "_get_mask_for_values_beyond_lower_threshold", "_get_mask_for_values_beyond_upper_threshold",
               "_get_mask_for_values_between_thresholds", "_step2_get_mask_for_values_to_impute", "_step6_get_mask_for_entries_to_set_to_lower_bound",
               "_step6_get_mask_for_entries_to_set_to_upper_bound", "_get_mask_threshold_condition", "_get_mask_higher_or_lower"}
INDEX_LIB = {"np.where", "np.argsort", "np.isin", "np.in1d", "np.logical_and", "np.logical_or", "np.logical_not", "np.nonzero", "np.flatnonzero",
             "np.isnan", "np.isinf", "np.isfinite", "np.argmax", "np.argmin", "np.searchsorted", "np.digitize", "np.arange", "np.zeros_like", "np.ones_like"}

# Everything else is classified fail-closed: a library function or method that is in none of the tables is
# treated as writing into its receiver / array arguments and returning an alias of them.
PURE_LIBS = {"np.result_type", "np.promote_types", "np.can_cast", "np.dtype", "np.finfo", "np.iinfo", "np.shape", "np.ndim", "np.size", "np.isscalar",
             "map_variable_str_to_variable_class", "map_standard_precipitation_method", "all", "any", "enumerate", "hasattr", "isinstance", "len", "list", "range", "round", "super", "type", "tuple", "dict", "zip", "iter", "reversed",
             "sorted", "partial", "tqdm", "map", "filter", "min", "max", "sum", "abs", "float", "int", "str", "bool", "repr", "print", "getattr", "issubclass", "callable", "id", "set", "frozenset",
             "ValueError", "TypeError", "NotImplementedError", "RuntimeError", "Exception", "Pool", "detrend", "child_class", "func", "step_function", "cls", "warning",
             "attrs.define", "attrs.field", "attrs.validators.gt", "attrs.validators.in_", "attrs.validators.instance_of", "attrs.validators.optional", "attrs.validators.ge", "attrs.validators.le", "attrs.validators.lt",
             "logger.error", "logger.info", "logger.warning", "logger.debug", "warnings.warn", "warnings.catch_warnings", "warnings.simplefilter", "measurements.label", "measurements.sum",
             "np.abs", "np.all", "np.any", "np.arange", "np.argsort", "np.array", "np.array_equal", "np.bincount", "np.concatenate", "np.cos", "np.sin", "np.datetime64", "np.diff", "np.einsum",
             "np.empty", "np.empty_like", "np.floor", "np.ceil", "np.histogram", "np.interp", "np.isclose", "np.isin", "np.isinf", "np.isnan", "np.isfinite", "np.issubdtype", "np.linspace", "np.log", "np.exp", "np.sqrt",
             "np.logical_and", "np.logical_not", "np.logical_or", "np.max", "np.maximum", "np.mean", "np.min", "np.minimum", "np.mod", "np.ndindex", "np.prod", "np.quantile",
             "np.random.random", "np.random.uniform", "np.round", "np.sign", "np.sort", "np.sum", "np.timedelta64", "np.unique", "np.vectorize", "np.where", "np.zeros", "np.zeros_like", "np.ones", "np.ones_like",
             "np.full", "np.full_like", "np.std", "np.var", "np.median", "np.cumsum", "np.nanmean", "np.nanmax", "np.nanmin", "np.argmax", "np.argmin", "np.searchsorted", "np.nonzero", "np.flatnonzero", "np.digitize",
             "np.stack", "np.vstack", "np.hstack", "np.column_stack", "np.repeat", "np.tile", "np.clip", "np.power", "np.square", "np.allclose", "np.count_nonzero", "np.copy", "np.float64", "np.int64",
             "pd.DataFrame", "pd.concat", "pd.to_numeric", "scipy.interpolate.interp1d", "scipy.ndimage.maximum_filter1d", "scipy.ndimage.uniform_filter1d",
             "scipy.optimize.minimize", "scipy.special.expit", "scipy.special.logit", "scipy.stats.kstest", "scipy.stats.linregress", "scipy.stats.rankdata", "scipy.stats.rv_histogram"}
PURE_METHODS = {"ECDF", "argsort", "astype", "copy", "filled", "flatten", "get", "getEffectiveLevel", "getLogger", "items", "iterrows", "keys", "logpdf", "lower", "upper", "max", "mean",
                "merge", "min", "reduceat", "split", "starmap", "sum", "timetuple", "setLevel", "any", "all", "std", "var", "round", "tolist", "item", "format", "join", "startswith", "endswith",
                "strip", "index", "count", "cumsum", "nonzero", "argmax", "argmin", "clip", "dot", "prod", "isoformat", "close", "terminate", "imap", "cdf", "ppf", "pdf", "fit", "rvs", "sf", "isf"}
# sources of randomness / ambient state other than numpy's global generator
NONDET = ("np.random.default_rng", "np.random.RandomState", "np.random.Generator", "np.random.SeedSequence", "np.random.PCG64", "np.random.seed", "random.", "time.", "datetime.now",
          "datetime.datetime.now", "os.urandom", "os.environ", "os.getenv", "secrets.", "uuid.")
REFLECTIVE = ("setattr", "delattr", "vars", "globals", "locals", "exec", "eval")

class Fun:
    def __init__(self, key, node, cls):
        self.key, self.node, self.cls = key, node, cls
        a = node.args
        self.params = [x.arg for x in a.posonlyargs + a.args]
        self.kwonly = [x.arg for x in a.kwonlyargs]
        self.vararg = a.vararg.arg if a.vararg else None
        self.kwarg = a.kwarg.arg if a.kwarg else None
        self.all_params = self.params + self.kwonly + ([self.vararg] if self.vararg else []) + ([self.kwarg] if self.kwarg else [])
        self.stmts = []      # IR
        self.rets = []
        self.tmp = 0
        self.bind_kinds = {}  # var -> set of "index" / "other"
        self.cur = {}         # source name -> current version name (SSA renaming of top-level straight-line rebinding)
        self.nver = {}
        self.depth = 0
        # names bound somewhere in the function (anything else that is written is module-level state)
        self.locals = set(self.all_params)
        declared_global = set()
        for n in ast.walk(node):
            if isinstance(n, ast.Global): declared_global |= set(n.names)
            elif isinstance(n, ast.Name) and isinstance(n.ctx, (ast.Store, ast.Del)): self.locals.add(n.id)
            elif isinstance(n, ast.arg): self.locals.add(n.arg)
            elif isinstance(n, (ast.FunctionDef, ast.ClassDef)) and n is not node: self.locals.add(n.name)
            elif isinstance(n, ast.ExceptHandler) and n.name: self.locals.add(n.name)
            elif isinstance(n, (ast.Import, ast.ImportFrom)):
                for a in n.names: self.locals.add((a.asname or a.name).split(".")[0])
        self.locals -= declared_global
        self.declared_global = declared_global

def unparse(n):
    try:
        return ast.unparse(n)
    except Exception:
        return "?"

def names_in(n):
    return [x.id for x in ast.walk(n) if isinstance(x, ast.Name)]

class Extractor:
    def __init__(self, repo):
        self.repo = repo
        self.funs = {}          # key -> Fun
        self.by_name = {}       # bare name -> [keys]
        self.hashes = {}
        for rel in MODULES:
            src = open(os.path.join(repo, rel)).read()
            self.hashes[rel] = hashlib.sha256(src.encode()).hexdigest()
            tree = ast.parse(src)
            for n in tree.body:
                if isinstance(n, ast.FunctionDef):
                    self.add(n.name, n, None)
                elif isinstance(n, ast.ClassDef):
                    for m in n.body:
                        if isinstance(m, ast.FunctionDef):
                            self.add(n.name + "." + m.name, m, n.name)
        for f in self.funs.values():
            self.body(f, f.node.body)

    def add(self, key, node, cls):
        if key in self.funs:
            key = key + "'"
        f = Fun(key, node, cls)
        self.funs[key] = f
        self.by_name.setdefault(node.name, []).append(key)

    # ---------------------------------------------------------------- helpers
    def fresh_tmp(self, f):
        f.tmp += 1
        return "%%t%d" % f.tmp

    def callee_keys(self, call):
        """project functions a call may reach (dynamic dispatch: every class defining the method)"""
        fn = call.func
        if isinstance(fn, ast.Name):
            return self.by_name.get(fn.id, []) if fn.id in self.by_name and all(self.funs[k].cls is None for k in self.by_name[fn.id]) else \
                   (self.by_name.get(fn.id, []) if fn.id in self.by_name else [])
        if isinstance(fn, ast.Attribute):
            recv = fn.value
            is_self = isinstance(recv, ast.Name) and recv.id in ("self", "cls")
            is_super = isinstance(recv, ast.Call) and isinstance(recv.func, ast.Name) and recv.func.id == "super"
            is_class = isinstance(recv, ast.Name) and any(k.startswith(recv.id + ".") for k in self.funs)
            is_helper = isinstance(recv, ast.Attribute) and isinstance(recv.value, ast.Name) and recv.value.id == "self" and \
                        recv.attr in ("running_window", "running_window_over_years_of_cm_future")
            is_utils = isinstance(recv, ast.Name) and recv.id == "utils"
            if is_self or is_super or is_class or is_helper or is_utils:
                return [k for k in self.by_name.get(fn.attr, [])]
        return []

    def libname(self, call):
        fn = call.func
        if isinstance(fn, ast.Attribute):
            base = unparse(fn.value)
            if base in ("np", "numpy", "np.random", "np.ma", "scipy.stats", "scipy.special", "scipy.interpolate", "scipy.ndimage", "scipy.optimize", "math", "warnings", "measurements", "pd", "logger"):
                return base + "." + fn.attr
        if isinstance(fn, ast.Name):
            return fn.id
        return None

    def expr_kind_index(self, f, e):
        """True if e evaluates to an index array / Boolean mask (or anything that is certainly not a basic index)"""
        if isinstance(e, (ast.Compare, ast.BoolOp)):
            return True
        if isinstance(e, ast.UnaryOp) and isinstance(e.op, (ast.Invert, ast.Not)):
            return True
        if isinstance(e, ast.BinOp) and isinstance(e.op, (ast.BitAnd, ast.BitOr)):
            return True
        if isinstance(e, ast.Subscript):
            return self.expr_kind_index(f, e.value) and not isinstance(e.slice, ast.Slice)
        if isinstance(e, ast.Call):
            ln = self.libname(e)
            if ln in INDEX_LIB:
                return True
            if isinstance(e.func, ast.Attribute) and e.func.attr in INDEX_FUNCS:
                return True
            if isinstance(e.func, ast.Name) and e.func.id in INDEX_FUNCS:
                return True
            if isinstance(e.func, ast.Attribute) and e.func.attr == "astype" and self.expr_kind_index(f, e.func.value):
                return True
        if isinstance(e, ast.Name):
            k = f.bind_kinds.get(self.rd(f, e.id))
            return bool(k) and k == {"index"}
        return False

    # ---------------------------------------------------------------- expressions
    def rd(self, f, name):
        return f.cur.get(name, name)

    def wr(self, f, name):
        """name to bind on assignment: a new version for assignments at the top level of the function body
        (straight-line code: everything textually later executes later), the current version inside blocks"""
        if f.depth == 0:
            f.nver[name] = f.nver.get(name, 0) + 1
            f.cur[name] = "%s#%d" % (name, f.nver[name])
        return f.cur.get(name, name)

    def atom(self, f, e):
        """variable name holding the value of e (emitting a temp binding when needed)"""
        if isinstance(e, ast.Name):
            return self.rd(f, e.id)
        t = self.fresh_tmp(f)
        self.bind(f, t, e)
        return t

    def bind(self, f, x, e):
        for r in self.rhs(f, e):
            f.stmts.append(("bind", x, r))

    def rhs(self, f, e):
        """list of IR right-hand sides (several for dynamic dispatch)"""
        if isinstance(e, ast.Name):
            return [("may", [self.rd(f, e.id)])]
        if isinstance(e, ast.Constant) or isinstance(e, (ast.JoinedStr, ast.Lambda)):
            return [("fresh",)]
        if isinstance(e, ast.Starred):
            return self.rhs(f, e.value)
        if isinstance(e, ast.NamedExpr):
            tgt = self.rd(f, e.target.id)
            self.bind(f, tgt, e.value)
            f.bind_kinds.setdefault(tgt, set()).add("index" if self.expr_kind_index(f, e.value) else "other")
            return [("may", [tgt])]
        if isinstance(e, ast.Attribute):
            if e.attr in ("__dict__", "__setattr__", "__class__", "__globals__"):
                f.stmts.append(("self", "<reflective>." + e.attr))
            if isinstance(e.value, ast.Name) and e.value.id in ("self", "cls"):
                return [("fresh",)]
            if e.attr in VIEW_METHODS:
                return [("may", [self.atom(f, e.value)])]
            self.visit_effects(f, e.value)
            return [("fresh",)]
        if isinstance(e, ast.Subscript):
            base = self.atom(f, e.value)
            s = e.slice
            basic = isinstance(s, (ast.Slice, ast.Constant)) or (isinstance(s, ast.Tuple) and all(isinstance(x, (ast.Slice, ast.Constant)) or
                    (isinstance(x, ast.Name) and not self.expr_kind_index(f, x)) for x in s.elts)) or \
                    (isinstance(s, ast.UnaryOp) and isinstance(s.operand, ast.Constant))
            if isinstance(s, ast.Name):
                basic = not self.expr_kind_index(f, s)
            if not basic and not isinstance(s, (ast.Slice, ast.Constant, ast.Tuple, ast.Name)):
                self.visit_effects(f, s)
                basic = not self.expr_kind_index(f, s) and not isinstance(s, (ast.Call, ast.BinOp, ast.Compare, ast.BoolOp, ast.UnaryOp, ast.Subscript, ast.List, ast.Attribute))
            return [("may", [base])] if basic else [("fresh",)]
        if isinstance(e, (ast.Tuple, ast.List, ast.Set)):
            return [("may", [self.atom(f, x) for x in e.elts])] if e.elts else [("fresh",)]
        if isinstance(e, ast.Dict):
            return [("may", [self.atom(f, x) for x in e.values if x is not None])] if e.values else [("fresh",)]
        if isinstance(e, ast.IfExp):
            self.visit_effects(f, e.test)
            return [("may", [self.atom(f, e.body), self.atom(f, e.orelse)])]
        if isinstance(e, (ast.ListComp, ast.SetComp, ast.GeneratorExp, ast.DictComp)):
            for g in e.generators:
                src = self.atom(f, g.iter)
                for t in names_in(g.target):
                    f.stmts.append(("bind", self.rd(f, t), ("may", [src])))
                for c in g.ifs:
                    self.visit_effects(f, c)
            elts = [e.elt] if not isinstance(e, ast.DictComp) else [e.key, e.value]
            return [("may", [self.atom(f, x) for x in elts])]
        if isinstance(e, (ast.BinOp, ast.UnaryOp, ast.Compare, ast.BoolOp)):
            self.visit_effects(f, e)
            return [("fresh",)]
        if isinstance(e, ast.Call):
            return self.call(f, e, want_result=True)
        if isinstance(e, (ast.Yield, ast.YieldFrom, ast.Await)):
            if e.value is not None:
                f.rets.append(self.atom(f, e.value))
            return [("fresh",)]
        return [("may", list(dict.fromkeys(self.rd(f, n) for n in names_in(e))))] if names_in(e) else [("fresh",)]

    def visit_effects(self, f, e):
        """evaluate sub-expressions for their effects (calls, walrus) only"""
        for n in ast.iter_child_nodes(e) if not isinstance(e, (ast.Call, ast.NamedExpr)) else [e]:
            if isinstance(n, ast.Call):
                self.call(f, n, want_result=False)
            elif isinstance(n, ast.NamedExpr):
                self.rhs(f, n)
            elif isinstance(n, ast.expr):
                self.visit_effects(f, n)

    def map_args(self, callee, call, f):
        """argument variable per callee parameter index (None where not passed)"""
        fn = call.func
        bound_self = isinstance(fn, ast.Attribute) and not (isinstance(fn.value, ast.Name) and any(k.startswith(fn.value.id + ".") for k in self.funs) and not fn.value.id in ("self", "cls")) \
                     and callee.cls is not None and not self.is_static(callee)
        params = callee.all_params
        out = [None] * len(params)
        pos = 0
        if bound_self and params and params[0] in ("self", "cls"):
            recv = fn.value
            out[0] = self.atom(f, recv)
            pos = 1
        elif callee.cls is not None and params and params[0] in ("self", "cls") and isinstance(fn, ast.Attribute):
            pos = 0    # Class.method(obj, ...) style: positional self
        extra = []
        for a in call.args:
            v = self.atom(f, a.value if isinstance(a, ast.Starred) else a)
            if isinstance(a, ast.Starred) or pos >= len(callee.params):
                extra.append(v)
            else:
                out[pos] = v; pos += 1
        for k in call.keywords:
            v = self.atom(f, k.value)
            if k.arg is not None and k.arg in params:
                out[params.index(k.arg)] = v
            else:
                extra.append(v)
        return out, extra

    def is_static(self, fun):
        return any(isinstance(d, ast.Name) and d.id == "staticmethod" for d in fun.node.decorator_list) or \
               (fun.params[:1] not in (["self"], ["cls"]))

    def call(self, f, call, want_result):
        keys = self.callee_keys(call)
        fn = call.func
        if keys:
            out = []
            for k in keys:
                callee = self.funs[k]
                args, extra = self.map_args(callee, call, f)
                # unmapped parameters get a fresh dummy; *args / **kwargs / surplus arguments may alias every parameter: conservative store check
                argv = []
                for i, a in enumerate(args):
                    if a is None:
                        d = self.fresh_tmp(f); f.stmts.append(("bind", d, ("fresh",)))
                        if extra and callee.all_params[i] in (callee.vararg, callee.kwarg):
                            f.stmts.append(("bind", d, ("may", extra)))
                        argv.append(d)
                    else:
                        argv.append(a)
                if want_result:
                    out.append(("call", k, argv))
                else:
                    f.stmts.append(("callstmt", k, argv))
            return out
        # library call
        ln = self.libname(call) or ""
        self.nondet = getattr(self, "nondet", [])
        full = unparse(fn)
        if any(full == n or (n.endswith(".") and full.startswith(n)) for n in NONDET):
            self.nondet.append((f.key, full))
        if isinstance(fn, ast.Name) and fn.id in REFLECTIVE:
            f.stmts.append(("self", "<reflective>." + fn.id))
        argvars = []
        for a in call.args:
            argvars.append(self.atom(f, a.value if isinstance(a, ast.Starred) else a))
        for k in call.keywords:
            v = self.atom(f, k.value)
            argvars.append(v)
            if k.arg == "out":
                f.stmts.append(("store", v))
        if ln in INPLACE_FUNCS and argvars:
            f.stmts.append(("store", argvars[0]))
        if isinstance(fn, ast.Attribute):
            recv_is_module = unparse(fn.value) in ("np", "numpy", "np.random", "np.ma", "scipy.stats", "scipy.special", "scipy.interpolate", "scipy.ndimage",
                                                     "scipy.optimize", "math", "warnings", "measurements", "pd", "logger", "plt", "seaborn", "attrs", "attrs.validators")
            if not recv_is_module:
                recv = self.atom(f, fn.value)
                known = fn.attr in PURE_METHODS or fn.attr in VIEW_METHODS
                if fn.attr in INPLACE_METHODS or not known:
                    pr = self.persistent_root(f, fn.value)
                    if pr is not None:
                        f.stmts.append(("self", pr))         # e.g. self.__dict__.setdefault(...), _CACHE.update(...)
                    f.stmts.append(("store", recv))
                    if not known and fn.attr not in INPLACE_METHODS:
                        self.unclassified = getattr(self, "unclassified", []) + [(f.key, "." + fn.attr)]
                        for v in argvars: f.stmts.append(("store", v))
                        return [("may", [recv] + argvars)]
                if fn.attr in VIEW_METHODS:
                    return [("may", [recv])]
                if fn.attr == "astype" and any(k.arg == "copy" for k in call.keywords):
                    return [("may", [recv])]          # astype(..., copy=False) may return the array itself
                return [("fresh",)]
        if ln in VIEW_FUNCS:
            return [("may", argvars)] if argvars else [("fresh",)]
        if ln in ("list", "tuple", "dict", "zip", "enumerate", "iter", "reversed", "sorted", "partial", "tqdm", "map", "filter"):
            return [("may", argvars)] if argvars else [("fresh",)]
        if ln in PURE_LIBS or ln in INPLACE_FUNCS or ln in INDEX_LIB:
            return [("fresh",)]
        # a class of this project used as a constructor, or a local callable: arguments may be retained, not written
        if isinstance(fn, ast.Name) and (fn.id in f.locals or fn.id[:1].isupper() or fn.id.startswith("gen_")):
            return [("may", argvars)] if argvars else [("fresh",)]
        if isinstance(fn, ast.Call) and isinstance(fn.func, ast.Name) and fn.func.id == "type":
            return [("fresh",)]          # type(x)(...): a constructor call
        self.unclassified = getattr(self, "unclassified", []) + [(f.key, ln or full)]
        for v in argvars: f.stmts.append(("store", v))
        return [("may", argvars)] if argvars else [("fresh",)]

    # ---------------------------------------------------------------- statements
    def persistent_root(self, f, e):
        """name of the persistent (non-argument, non-local) state an expression is rooted in, or None:
        an attribute of self / cls, or a module-level name"""
        while isinstance(e, (ast.Subscript, ast.Attribute, ast.Call)):
            if isinstance(e, ast.Attribute) and isinstance(e.value, ast.Name) and e.value.id in ("self", "cls"):
                return e.attr
            e = e.func if isinstance(e, ast.Call) else e.value
        if isinstance(e, ast.Name) and e.id not in ("self", "cls") and e.id not in f.locals:
            return "<module>." + e.id
        return None

    def root_of_target(self, f, t):
        """the variable written by a subscript / attribute store target"""
        pr = self.persistent_root(f, t)
        if pr is not None:
            return None, pr
        while isinstance(t, (ast.Subscript,)):
            t = t.value
        if isinstance(t, ast.Attribute):
            if isinstance(t.value, ast.Name) and t.value.id in ("self", "cls"):
                return None, t.attr
            return self.atom(f, t.value), None
        if isinstance(t, ast.Name):
            return self.rd(f, t.id), None
        return self.atom(f, t), None

    def assign_target(self, f, t, value):
        if isinstance(t, ast.Name) and t.id in f.declared_global:
            self.atom(f, value)
            f.stmts.append(("self", "<module>." + t.id))
        elif isinstance(t, ast.Name):
            rs = self.rhs(f, value)                      # evaluated with the old version of the name
            kind = "index" if self.expr_kind_index(f, value) else "other"
            tgt = self.wr(f, t.id)
            for r_ in rs:
                f.stmts.append(("bind", tgt, r_))
            f.bind_kinds.setdefault(tgt, set()).add(kind)
        elif isinstance(t, (ast.Tuple, ast.List)):
            src = self.atom(f, value)
            for x in t.elts:
                if isinstance(x, ast.Starred): x = x.value
                if isinstance(x, ast.Name):
                    tgt = self.wr(f, x.id)
                    f.stmts.append(("bind", tgt, ("may", [src])))
                    f.bind_kinds.setdefault(tgt, set()).add("other")
                else:
                    self.assign_target(f, x, ast.Name(id=src, ctx=ast.Load()))
        elif isinstance(t, ast.Subscript):
            self.visit_effects(f, t.slice) if isinstance(t.slice, ast.expr) else None
            src = self.atom(f, value)
            v, attr = self.root_of_target(f, t)
            if v is not None:
                f.stmts.append(("store", v))
                f.stmts.append(("bind", v, ("may", [v, src])))      # containers: the stored object becomes reachable
            else:
                f.stmts.append(("self", attr))
        elif isinstance(t, ast.Attribute):
            self.atom(f, value)
            v, attr = self.root_of_target(f, t)
            if attr is not None:
                f.stmts.append(("self", attr))
            elif v is not None:
                f.stmts.append(("store", v))

    def body(self, f, stmts):
        for s in stmts:
            if isinstance(s, ast.Expr):
                if isinstance(s.value, ast.Call):
                    self.call(f, s.value, want_result=False)
                elif isinstance(s.value, (ast.Yield, ast.YieldFrom)):
                    self.rhs(f, s.value)
                else:
                    self.visit_effects(f, s.value)
            elif isinstance(s, ast.Assign):
                for t in s.targets:
                    self.assign_target(f, t, s.value)
            elif isinstance(s, ast.AnnAssign):
                if s.value is not None:
                    self.assign_target(f, s.target, s.value)
            elif isinstance(s, ast.AugAssign):
                self.atom(f, s.value)
                v, attr = self.root_of_target(f, s.target)
                if v is not None:
                    f.stmts.append(("store", v))
                else:
                    f.stmts.append(("self", attr))
            elif isinstance(s, (ast.For, ast.AsyncFor)):
                src = self.atom(f, s.iter)
                f.depth += 1
                for t in names_in(s.target):
                    tgt = self.rd(f, t)
                    f.stmts.append(("bind", tgt, ("may", [src])))
                    f.bind_kinds.setdefault(tgt, set()).add("other")
                self.body(f, s.body); self.body(f, s.orelse)
                f.depth -= 1
            elif isinstance(s, ast.While):
                f.depth += 1
                self.visit_effects(f, s.test); self.body(f, s.body); self.body(f, s.orelse)
                f.depth -= 1
            elif isinstance(s, ast.If):
                f.depth += 1
                self.rhs(f, s.test) if isinstance(s.test, ast.NamedExpr) else self.visit_effects(f, s.test)
                self.body(f, s.body); self.body(f, s.orelse)
                f.depth -= 1
            elif isinstance(s, (ast.With, ast.AsyncWith)):
                f.depth += 1
                for it in s.items:
                    v = self.atom(f, it.context_expr)
                    if it.optional_vars is not None:
                        for t in names_in(it.optional_vars):
                            f.stmts.append(("bind", self.rd(f, t), ("may", [v])))
                self.body(f, s.body)
                f.depth -= 1
            elif isinstance(s, ast.Try):
                f.depth += 1
                self.body(f, s.body)
                for h in s.handlers: self.body(f, h.body)
                self.body(f, s.orelse); self.body(f, s.finalbody)
                f.depth -= 1
            elif isinstance(s, ast.Return):
                if s.value is not None:
                    f.rets.append(self.atom(f, s.value))
            elif isinstance(s, ast.FunctionDef):
                # nested function: analysed inline (closure variables are shared); its parameters may be anything local
                f.depth += 1
                for a in s.args.args:
                    f.stmts.append(("bind", self.rd(f, a.arg), ("fresh",)))
                self.body(f, s.body)
                f.depth -= 1
            elif isinstance(s, (ast.Raise, ast.Assert)):
                for c in ast.iter_child_nodes(s):
                    if isinstance(c, ast.expr): self.visit_effects(f, c)
            elif isinstance(s, (ast.Pass, ast.Break, ast.Continue, ast.Global, ast.Nonlocal, ast.Import, ast.ImportFrom, ast.Delete, ast.ClassDef)):
                pass
            else:
                # unknown statement: conservative store into every name it mentions
                for n in names_in(s):
                    f.stmts.append(("store", self.rd(f, n)))

    # ---------------------------------------------------------------- fixpoint
    def solve(self):
        A = {k: {} for k in self.funs}
        mut = {k: set() for k in self.funs}
        retal = {k: set() for k in self.funs}
        selfw = {k: set() for k in self.funs}
        for k, f in self.funs.items():
            for i, p in enumerate(f.all_params):
                A[k].setdefault(p, set()).add(i)
        changed = True
        while changed:
            changed = False
            for k, f in self.funs.items():
                a = A[k]
                def pt(x): return a.setdefault(x, set())
                def add(s, items):
                    nonlocal changed
                    n = len(s); s |= set(items)
                    if len(s) != n: changed = True
                def effects(callee, args):
                    for j in mut[callee]:
                        if j < len(args): add(mut[k], pt(args[j]))
                    add(selfw[k], selfw[callee])
                for st in f.stmts:
                    if st[0] == "bind":
                        x, r = st[1], st[2]
                        if r[0] == "may":
                            for y in r[1]: add(pt(x), pt(y))
                        elif r[0] == "call":
                            effects(r[1], r[2])
                            for j in retal[r[1]]:
                                if j < len(r[2]): add(pt(x), pt(r[2][j]))
                    elif st[0] == "store":
                        add(mut[k], pt(st[1]))
                    elif st[0] == "callstmt":
                        effects(st[1], st[2])
                    elif st[0] == "self":
                        add(selfw[k], [st[1]])
                for rr in f.rets:
                    add(retal[k], pt(rr))
        return A, mut, retal, selfw

def cs(s): return '"%s"' % s.replace('"', '""')
def cl(xs): return "[" + "; ".join(xs) + "]"

def generate_effects(repo):
    ex = Extractor(repo)
    A, mut, retal, selfw = ex.solve()
    lines = ["(* GENERATED by /verif/translator/gen_effects.py from ibicus/{utils,debias,evaluate/metrics}.py -- do not edit. *)",
             "From Coq Require Import List Bool String.", "From IV Require Import Effects.", "Import ListNotations.", "Open Scope string_scope.", ""]
    def rhs(r):
        if r[0] == "fresh": return "RFresh"
        if r[0] == "may": return "(RMay %s)" % cl(cs(y) for y in r[1])
        return "(RCall %s %s)" % (cs(r[1]), cl(cs(a) for a in r[2]))
    progs = []
    for k, f in ex.funs.items():
        st = []
        for s in f.stmts:
            if s[0] == "bind": st.append("SBind %s %s" % (cs(s[1]), rhs(s[2])))
            elif s[0] == "store": st.append("SStore %s" % cs(s[1]))
            elif s[0] == "callstmt": st.append("SCall %s %s" % (cs(s[1]), cl(cs(a) for a in s[2])))
            elif s[0] == "self": st.append("SSelf %s" % cs(s[1]))
        progs.append("(%s, mkFun %s\n   %s\n   %s)" % (cs(k), cl(cs(p) for p in f.all_params), cl(st), cl(cs(r) for r in f.rets)))
    lines.append("Definition gen_program : program :=\n [ " + ";\n   ".join(progs) + " ].\n")
    lines.append("Definition gen_summaries : summaries :=\n [ " + ";\n   ".join(
        "(%s, mkSum %s %s %s)" % (cs(k), cl(str(i) for i in sorted(mut[k])), cl(str(i) for i in sorted(retal[k])), cl(cs(a) for a in sorted(selfw[k]))) for k in ex.funs) + " ].\n")
    lines.append("Definition gen_pointsto : pointsto :=\n [ " + ";\n   ".join(
        "(%s, %s)" % (cs(k), cl("(%s, %s)" % (cs(x), cl(str(i) for i in sorted(s))) for x, s in A[k].items() if s)) for k in ex.funs) + " ].\n")
    # entry points: apply_location / apply of each debiaser (the definition that the class resolves to)
    def resolve(cls, meth):
        chain = {"LinearScaling": ["LinearScaling", "RunningWindowDebiaser", "Debiaser"], "QuantileMapping": ["QuantileMapping", "RunningWindowDebiaser", "Debiaser"],
                 "ScaledDistributionMapping": ["ScaledDistributionMapping", "RunningWindowDebiaser", "Debiaser"], "CDFt": ["CDFt", "RunningWindowDebiaser", "Debiaser"],
                 "ECDFM": ["ECDFM", "RunningWindowDebiaser", "Debiaser"], "QuantileDeltaMapping": ["QuantileDeltaMapping", "RunningWindowDebiaser", "Debiaser"],
                 "DeltaChange": ["DeltaChange", "Debiaser"], "ISIMIP": ["ISIMIP", "Debiaser"]}[cls]
        for c in chain:
            if c + "." + meth in ex.funs:
                return c + "." + meth
        raise KeyError((cls, meth))
    entries = sorted({resolve(c, m) for c in DEBIASERS for m in ("apply_location", "apply")})
    steps = sorted(k for k in ex.funs if k.startswith("ISIMIP.step"))
    lines.append("Definition entry_points : list string := %s.\n" % cl(cs(e) for e in entries))
    lines.append("Definition isimip_steps : list string := %s.\n" % cl(cs(e) for e in steps))
    lines.append("Definition metric_methods : list string := %s.\n" % cl(cs(k) for k in sorted(ex.funs) if k.startswith("ThresholdMetric.calculate") or k.startswith("AccumulativeThresholdMetric.calculate") or k == "ThresholdMetric.filter_threshold_exceedances"))
    nondet = sorted(set(getattr(ex, "nondet", [])))
    uncl = sorted(set(getattr(ex, "unclassified", [])))
    lines.append("(* randomness / ambient-state sources other than numpy's global generator, (function, call) *)")
    lines.append("Definition other_random_sources : list (string * string) := %s.\n" % cl("(%s, %s)" % (cs(a), cs(b)) for a, b in nondet))
    lines.append("(* calls classified fail-closed (unknown library function or method: treated as writing its arguments) *)")
    lines.append("Definition unclassified_calls : list (string * string) := %s.\n" % cl("(%s, %s)" % (cs(a), cs(b)) for a, b in uncl))
    info = dict(functions=len(ex.funs), other_random_sources=nondet, unclassified_calls=uncl, statements=sum(len(f.stmts) for f in ex.funs.values()),
                entries={e: dict(mut=sorted(mut[e]), selfw=sorted(selfw[e])) for e in entries},
                mutating={k: sorted(mut[k]) for k in ex.funs if mut[k]})
    return "\n".join(lines), ex.hashes, info

if __name__ == "__main__":
    import sys, json
    txt, h, info = generate_effects(sys.argv[1] if len(sys.argv) > 1 else "/repo")
    print(json.dumps(info, indent=1)[:6000])
