#!/usr/bin/env python3
"""Extract the configuration tables of ibicus into Gallina (Gen/GenConfig.v):
variable-name map, per-debiaser default / experimental variables (following the arguments
that each from_variable really passes to _from_variable), the published reST support
table, attrs fields with validators / converters / defaults, which attributes
__attrs_post_init__ writes and reads, and whether apply() re-runs it.
Fail-closed: any construct outside what is recognised raises Refuse."""
import ast, os, re, hashlib
from pyast2coq import Refuse

DEBIASERS = [
    ("LinearScaling", "ibicus/debias/_linear_scaling.py"),
    ("DeltaChange", "ibicus/debias/_delta_change.py"),
    ("QuantileMapping", "ibicus/debias/_quantile_mapping.py"),
    ("ScaledDistributionMapping", "ibicus/debias/_scaled_distribution_mapping.py"),
    ("CDFt", "ibicus/debias/_cdft.py"),
    ("ECDFM", "ibicus/debias/_ecdfm.py"),
    ("QuantileDeltaMapping", "ibicus/debias/_quantile_delta_mapping.py"),
    ("ISIMIP", "ibicus/debias/_isimip.py"),
]
PARENTS = {"RunningWindowDebiaser": "ibicus/debias/_running_window_debiaser.py", "Debiaser": "ibicus/debias/_debiaser.py"}

def cstr(s):
    return '"%s"%%string' % s.replace('"', '""')

def clist(xs):
    return "[" + "; ".join(xs) + "]"

def find_class(tree, name):
    for n in tree.body:
        if isinstance(n, ast.ClassDef) and n.name == name:
            return n
    raise Refuse("class %s not found" % name)

def module_dict_keys(tree, name):
    for n in tree.body:
        if isinstance(n, ast.Assign) and len(n.targets) == 1 and isinstance(n.targets[0], ast.Name) and n.targets[0].id == name:
            if not isinstance(n.value, ast.Dict):
                raise Refuse("%s is not a dict literal" % name)
            keys = []
            for k in n.value.keys:
                if not isinstance(k, ast.Name):
                    raise Refuse("non-name key in %s" % name)
                keys.append(k.id)
            return keys, n.value
    raise Refuse("module dict %s not found" % name)

def method(cls, name):
    for n in cls.body:
        if isinstance(n, ast.FunctionDef) and n.name == name:
            return n
    return None

def from_variable_dicts(cls):
    """names of the (default, experimental) dicts passed to _from_variable on the main path"""
    fv = method(cls, "from_variable")
    if fv is None:
        raise Refuse("no from_variable in %s" % cls.name)
    ret = [s for s in fv.body if isinstance(s, ast.Return)]
    if not ret:
        raise Refuse("from_variable without top-level return in %s" % cls.name)
    call = ret[-1].value
    if not (isinstance(call, ast.Call) and isinstance(call.func, ast.Attribute) and call.func.attr == "_from_variable"):
        raise Refuse("from_variable does not end in _from_variable call in %s" % cls.name)
    names = {}
    pos = ["child_class", "variable", "default_settings_variable", "experimental_default_setting_variable", "default_settings_general"]
    for i, a in enumerate(call.args):
        names[pos[i]] = a
    for k in call.keywords:
        if k.arg is not None:
            names[k.arg] = k.value
    def nm(key):
        v = names.get(key)
        if v is None:
            return None
        if not isinstance(v, ast.Name):
            raise Refuse("non-name %s argument in %s.from_variable" % (key, cls.name))
        return v.id
    first = names.get("child_class")
    if not (isinstance(first, ast.Name) and first.id == "cls"):
        raise Refuse("_from_variable not called with cls in %s" % cls.name)
    var = names.get("variable")
    if not (isinstance(var, ast.Name) and var.id == "variable"):
        raise Refuse("_from_variable not called with variable in %s" % cls.name)
    return nm("default_settings_variable"), nm("experimental_default_setting_variable"), nm("default_settings_general")

def validators_of(call):
    """attrs.field(...) -> (default_text or None, [validator terms], converter or None)"""
    default, vals, conv = None, [], None
    for k in call.keywords:
        if k.arg == "default":
            default = ast.unparse(k.value)
        elif k.arg == "converter":
            conv = ast.unparse(k.value)
        elif k.arg == "validator":
            items = k.value.elts if isinstance(k.value, ast.List) else [k.value]
            for it in items:
                vals.append(validator_term(it))
        elif k.arg in ("eq",):
            pass
        else:
            raise Refuse("attrs.field keyword %s" % k.arg)
    return default, vals, conv

def type_names(node):
    if isinstance(node, ast.Tuple):
        return [t for e in node.elts for t in type_names(e)]
    txt = ast.unparse(node)
    if txt == "type(None)":
        return ["NoneType"]
    return [txt.split(".")[-1]]

def validator_term(it):
    if not isinstance(it, ast.Call):
        raise Refuse("validator form %s" % ast.unparse(it))
    f = ast.unparse(it.func)
    if f == "attrs.validators.instance_of":
        return "V_instance_of " + clist(cstr(t) for t in type_names(it.args[0]))
    if f == "attrs.validators.in_":
        if not isinstance(it.args[0], ast.List) or not all(isinstance(e, ast.Constant) and isinstance(e.value, str) for e in it.args[0].elts):
            raise Refuse("in_ validator form")
        return "V_in " + clist(cstr(e.value) for e in it.args[0].elts)
    if f == "attrs.validators.gt":
        if not (isinstance(it.args[0], ast.Constant) and isinstance(it.args[0].value, int)):
            raise Refuse("gt validator form")
        return "V_gt (%d)%%Z" % it.args[0].value
    raise Refuse("validator %s" % f)

def fields_of(cls):
    out = []
    for n in cls.body:
        if isinstance(n, ast.AnnAssign) and isinstance(n.target, ast.Name) and isinstance(n.value, ast.Call) and ast.unparse(n.value.func) == "attrs.field":
            default, vals, conv = validators_of(n.value)
            out.append((n.target.id, default, vals, conv))
    return out

def self_writes(fn):
    w = []
    for n in ast.walk(fn):
        if isinstance(n, (ast.Assign, ast.AugAssign)):
            tg = n.targets if isinstance(n, ast.Assign) else [n.target]
            for t in tg:
                if isinstance(t, ast.Attribute) and isinstance(t.value, ast.Name) and t.value.id == "self" and t.attr not in w:
                    w.append(t.attr)
    return w

def none_guarded_writes(fn):
    """attributes written only inside `if self.a is None:` to the same attribute"""
    g = []
    for n in ast.walk(fn):
        if isinstance(n, ast.If) and isinstance(n.test, ast.Compare) and isinstance(n.test.ops[0], ast.Is) and \
           isinstance(n.test.left, ast.Attribute) and isinstance(n.test.left.value, ast.Name) and n.test.left.value.id == "self" and \
           isinstance(n.test.comparators[0], ast.Constant) and n.test.comparators[0].value is None:
            for s in n.body:
                for a in self_writes(s):
                    if a == n.test.left.attr and a not in g:
                        g.append(a)
    return g

def post_init_rejections(fn):
    """[(guard, condition)] for every `if condition: raise ...` of a post-init; guard is the conjunction of the
    enclosing tests ('' = the setting combination is rejected whatever the other settings are)"""
    out = []
    def walk(stmts, guards):
        for st in stmts:
            if isinstance(st, ast.If):
                if any(isinstance(x, ast.Raise) for x in st.body):
                    out.append((" and ".join(guards), ast.unparse(st.test)))
                walk([x for x in st.body if not isinstance(x, ast.Raise)], guards + [ast.unparse(st.test)])
                walk(st.orelse, guards + ["not (%s)" % ast.unparse(st.test)])
            elif isinstance(st, ast.Raise):
                out.append((" and ".join(guards), "True"))
            elif isinstance(st, (ast.For, ast.While, ast.With, ast.Try)):
                raise Refuse("post-init contains a %s statement" % type(st).__name__)
    walk(fn.body, [])
    return out

def calls_super_post_init(fn):
    for n in ast.walk(fn):
        if isinstance(n, ast.Call) and isinstance(n.func, ast.Attribute) and n.func.attr == "__attrs_post_init__" and \
           isinstance(n.func.value, ast.Call) and isinstance(n.func.value.func, ast.Name) and n.func.value.func.id == "super":
            return True
    return False

def apply_calls_post_init(fn):
    """True iff the first statement (after the docstring) of apply is self.__attrs_post_init__()"""
    body = [s for s in fn.body if not (isinstance(s, ast.Expr) and isinstance(s.value, ast.Constant))]
    if not body:
        return False
    s = body[0]
    return isinstance(s, ast.Expr) and isinstance(s.value, ast.Call) and ast.unparse(s.value.func) == "self.__attrs_post_init__"

def parse_table(doc_src):
    """the reST grid table of debias/__init__.py -> (column classes, {row label: [cells]})"""
    lines = [l for l in doc_src.split("\n") if l.startswith("|")]
    if not lines:
        raise Refuse("support table not found")
    header = [c.strip() for c in lines[0].strip().strip("|").split("|")]
    cols = []
    for h in header[1:]:
        m = re.match(r":py:class:`(\w+)`", h)
        if not m:
            raise Refuse("table header cell %r" % h)
        cols.append(m.group(1))
    rows = {}
    for l in lines[1:]:
        cells = [c.strip() for c in l.strip().strip("|").split("|")]
        if len(cells) != len(cols) + 1:
            raise Refuse("table row width")
        out = []
        for c in cells[1:]:
            c = c.replace(".. centered::", "").strip()
            if c == "": out.append("Blank")
            elif c == "x": out.append("Default")
            elif c == "(x)": out.append("Experimental")
            else: raise Refuse("table cell %r" % c)
        rows[cells[0]] = out
    return cols, rows

def generate_config(repo):
    """returns (coq text, hashes dict)"""
    hashes = {}
    def load(rel):
        src = open(os.path.join(repo, rel)).read()
        hashes[rel] = hashlib.sha256(src.encode()).hexdigest()
        return ast.parse(src), src
    out = []
    out.append("(* GENERATED by /verif/translator/gen_config.py from ibicus/debias/*.py, ibicus/variables.py -- do not edit. *)")
    out.append("From Coq Require Import ZArith QArith List Bool String.\nFrom IV Require Import ConfigBase XQ.\nImport ListNotations.\nOpen Scope string_scope.\n")
    # variables
    vt, vsrc = load("ibicus/variables.py")
    var_objs = []
    for n in vt.body:
        if isinstance(n, ast.Assign) and isinstance(n.value, ast.Call) and isinstance(n.value.func, ast.Name) and n.value.func.id == "Variable":
            var_objs.append(n.targets[0].id)
    keys = None
    for n in vt.body:
        if isinstance(n, ast.Assign) and isinstance(n.targets[0], ast.Name) and n.targets[0].id == "str_to_variable_class":
            if not isinstance(n.value, ast.Dict):
                raise Refuse("str_to_variable_class not a dict literal")
            keys = [(k.value, v.id) for k, v in zip(n.value.keys, n.value.values)]
    if keys is None:
        raise Refuse("str_to_variable_class not found")
    mp = method_or_func(vt, "map_variable_str_to_variable_class")
    lowers = any(isinstance(n, ast.Call) and isinstance(n.func, ast.Attribute) and n.func.attr == "lower" for n in ast.walk(mp))
    out.append("Definition variable_objects : list string := %s." % clist(cstr(v) for v in var_objs))
    out.append("Definition str_to_variable : list (string * string) := %s." % clist("(%s, %s)" % (cstr(k), cstr(v)) for k, v in keys))
    out.append("Definition map_lowercases_first : bool := %s.\n" % ("true" if lowers else "false"))
    # debiasers
    opts_tree, _ = load("ibicus/debias/_isimip_options.py")
    parent_trees = {p: load(rel)[0] for p, rel in PARENTS.items()}
    base_apply = method(find_class(parent_trees["Debiaser"], "Debiaser"), "apply")
    dflt, expr, fields_txt, calls, writes, guarded, reads, rejections = [], [], [], [], [], [], [], []
    for cname, rel in DEBIASERS:
        tree, src = load(rel)
        cls = find_class(tree, cname)
        d, e, g = from_variable_dicts(cls)
        def keys_of(name):
            if name is None:
                return []
            try:
                return module_dict_keys(tree, name)[0]
            except Refuse:
                return module_dict_keys(opts_tree, name)[0]
        dflt.append("  | %s => %s" % (cname, clist(cstr(k) for k in keys_of(d))))
        expr.append("  | %s => %s" % (cname, clist(cstr(k) for k in keys_of(e))))
        # fields: own + inherited (own definitions override)
        chain = [cls]
        base = cls.bases[0].id if cls.bases and isinstance(cls.bases[0], ast.Name) else None
        while base in parent_trees:
            pc = find_class(parent_trees[base], base)
            chain.append(pc)
            base = pc.bases[0].id if pc.bases and isinstance(pc.bases[0], ast.Name) else None
        seen, fl = set(), []
        for c in chain:
            for (fname, default, vals, conv) in fields_of(c):
                if fname in seen:
                    continue
                seen.add(fname)
                fl.append("(%s, mkField %s %s %s)" % (cstr(fname), ("(Some %s)" % cstr(default)) if default is not None else "None",
                                                      clist(vals), ("(Some %s)" % cstr(conv)) if conv else "None"))
        fields_txt.append("  | %s => %s" % (cname, clist(fl)))
        # post-init chain
        w, gd, rj = [], [], []
        for c in chain:
            pi = method(c, "__attrs_post_init__")
            if pi is not None:
                for a in post_init_rejections(pi):
                    if a not in rj: rj.append(a)
                for a in self_writes(pi):
                    if a not in w: w.append(a)
                for a in none_guarded_writes(pi):
                    if a not in gd: gd.append(a)
                if not calls_super_post_init(pi):
                    break
        writes.append("  | %s => %s" % (cname, clist(cstr(a) for a in w)))
        guarded.append("  | %s => %s" % (cname, clist(cstr(a) for a in gd)))
        rejections.append("  | %s => %s" % (cname, clist("(%s, %s)" % (cstr(g), cstr(c_)) for g, c_ in rj)))
        ap = method(cls, "apply")
        if ap is None:
            for c in chain[1:]:
                ap = method(c, "apply")
                if ap is not None: break
        calls.append("  | %s => %s" % (cname, "true" if (ap is not None and apply_calls_post_init(ap)) else "false"))
    out.append("Definition default_vars (d : debiaser) : list string :=\n  match d with\n%s\n  end." % "\n".join(dflt))
    out.append("Definition experimental_vars (d : debiaser) : list string :=\n  match d with\n%s\n  end." % "\n".join(expr))
    out.append("Definition fields (d : debiaser) : list (string * field) :=\n  match d with\n%s\n  end." % "\n".join(fields_txt))
    out.append("Definition post_init_writes (d : debiaser) : list string :=\n  match d with\n%s\n  end." % "\n".join(writes))
    out.append("Definition post_init_none_guarded (d : debiaser) : list string :=\n  match d with\n%s\n  end." % "\n".join(guarded))
    out.append("Definition post_init_rejections (d : debiaser) : list (string * string) :=\n  match d with\n%s\n  end." % "\n".join(rejections))
    out.append("Definition apply_calls_post_init (d : debiaser) : bool :=\n  match d with\n%s\n  end.\n" % "\n".join(calls))
    # ISIMIP bound defaults
    itree, _ = load("ibicus/debias/_isimip.py")
    fl = {f[0]: f[1] for f in fields_of(find_class(itree, "ISIMIP"))}
    def xq(txt):
        if txt == "np.inf": return "XQ.PInf"
        if txt == "-np.inf": return "XQ.NInf"
        from fractions import Fraction
        try:
            f = Fraction(txt)
        except Exception:
            raise Refuse("ISIMIP bound default %r" % txt)
        return "(XQ.Fin (%d # %d))" % (f.numerator, f.denominator)
    for b in ("lower_bound", "lower_threshold", "upper_bound", "upper_threshold"):
        if fl.get(b) is None:
            raise Refuse("ISIMIP.%s has no default" % b)
        out.append("Definition isimip_default_%s : XQ.t := %s." % (b, xq(fl[b])))
    out.append("")
    # ISIMIP per-variable settings (ibicus/debias/_isimip_options.py): bounds, thresholds and the switches the
    # proofs use, with the general settings filled in for keys a variable does not set
    ot, _ = load("ibicus/debias/_isimip_options.py")
    def top_dict(name):
        for n in ot.body:
            if isinstance(n, ast.Assign) and len(n.targets) == 1 and isinstance(n.targets[0], ast.Name) and n.targets[0].id == name and isinstance(n.value, ast.Dict):
                return n.value
        raise Refuse("_isimip_options.%s not found" % name)
    def lit(node):
        from fractions import Fraction
        txt = ast.unparse(node)
        if txt in ("np.inf", "-np.inf"): return xq(txt)
        if isinstance(node, ast.Constant) and isinstance(node.value, bool): return "true" if node.value else "false"
        try:
            v = eval(txt, {"__builtins__": {}}, {})
        except Exception:
            raise Refuse("ISIMIP setting value %r" % txt)
        if isinstance(v, bool): return "true" if v else "false"
        if isinstance(v, (int, float)):
            f = Fraction(txt) if "/" not in txt and "e" not in txt.lower() else Fraction(v).limit_denominator(10 ** 12)
            if "/" in txt:
                a_, b_ = txt.split("/"); f = Fraction(a_.strip()) / Fraction(b_.strip())
            return "(XQ.Fin (%d # %d))" % (f.numerator, f.denominator)
        raise Refuse("ISIMIP setting value %r" % txt)
    general = {k.value: v for k, v in zip(top_dict("isimip3_general_settings").keys, top_dict("isimip3_general_settings").values)}
    rows_ = []
    vd = top_dict("isimip3_variable_settings")
    for k, v in zip(vd.keys, vd.values):
        if not (isinstance(k, ast.Name) and isinstance(v, ast.Dict)):
            raise Refuse("isimip3_variable_settings entry form")
        st = {kk.value: vv for kk, vv in zip(v.keys, v.values)}
        def get(key):
            node = st.get(key, general.get(key))
            if node is None: raise Refuse("ISIMIP setting %s missing for %s" % (key, k.id))
            return node
        for key in st:
            if key not in general and key not in ("lower_bound", "lower_threshold", "upper_bound", "upper_threshold", "distribution", "trend_preservation_method"):
                raise Refuse("unknown ISIMIP setting %s" % key)
        rows_.append("(%s, mkIsimipVar %s %s %s %s %s %s %s %s %s)" % (cstr(k.id), lit(get("lower_bound")), lit(get("lower_threshold")), lit(get("upper_bound")), lit(get("upper_threshold")),
                     lit(get("detrending")), lit(get("nonparametric_qm")), lit(get("bias_correct_frequencies_of_values_beyond_thresholds")),
                     lit(get("scale_by_annual_cycle_of_upper_bounds")), cstr(ast.literal_eval(get("trend_preservation_method")))))
    out.append("Definition isimip_variable_settings : list (string * isimip_var) :=\n  %s.\n" % clist(rows_))
    # support table
    it, isrc = load("ibicus/debias/__init__.py")
    doc = ast.get_docstring(it, clean=False)
    cols, rows = parse_table(doc)
    if cols != [c for c, _ in DEBIASERS]:
        raise Refuse("support-table columns %r" % cols)
    out.append("Definition doc_table : list (string * list cell) := %s.\n" % clist(
        "(%s, %s)" % (cstr(label), clist(cells)) for label, cells in rows.items()))
    return "\n".join(out) + "\n", hashes

def method_or_func(tree, name):
    for n in tree.body:
        if isinstance(n, ast.FunctionDef) and n.name == name:
            return n
    raise Refuse("function %s not found" % name)

if __name__ == "__main__":
    import sys
    print(generate_config(sys.argv[1] if len(sys.argv) > 1 else "/repo")[0])
